"""Normalisation of library results and comparison with the reference model (oracle rules, DESIGN §3)."""
import math
import struct
from fractions import Fraction

import numpy as np

from . import fmt

EPOCH_US = np.datetime64('1904-01-01T00:00:00', 'us')
TS_LE = np.dtype([('second_fractions', '<u8'), ('seconds', '<i8')])


class V(object):
    """A violation: oracle tag + signature (salient features, used for known-finding matching) + detail."""
    def __init__(self, tag, detail='', **sig):
        self.tag = tag
        self.detail = detail
        self.sig = sig

    def as_dict(self):
        return {'tag': self.tag, 'sig': self.sig, 'detail': str(self.detail)[:600]}

    def __repr__(self):
        return 'V(%s %s %s)' % (self.tag, self.sig, str(self.detail)[:200])


def exact_us(sec, frac):
    """(floor microseconds since 1904, remainder != 0) of a raw timestamp, exact."""
    total = frac * 10**6
    return sec * 10**6 + (total >> 64), (total & (2**64 - 1)) != 0


def us_within_one(lib_us, sec, frac):
    fl, rem = exact_us(sec, frac)
    return lib_us == fl or lib_us == fl + 1 or (lib_us == fl - 1 and not rem)


def model_dtype(t, raw_ts):
    if t == 'str':
        return np.dtype('O')
    if t == 'ts':
        return None if raw_ts else np.dtype('<M8[us]')
    return np.dtype(fmt.TYPES[t][2])


def same_type(dt, t, raw_ts):
    """Library dtype equals the model type; byte-order flag is don't-care."""
    if t == 'ts' and raw_ts:
        return dt.names is not None and set(dt.names) == {'seconds', 'second_fractions'}
    md = model_dtype(t, raw_ts)
    if md.kind == 'O':
        return dt.kind == 'O'
    return dt.kind == md.kind and dt.itemsize == md.itemsize and (dt.kind != 'M' or dt == md)


def le_bytes(arr):
    """Bytes of a numeric/bool/complex array in little-endian order."""
    arr = np.asarray(arr)
    if arr.dtype.byteorder == '>':
        arr = arr.astype(arr.dtype.newbyteorder('<'))
    return np.ascontiguousarray(arr).tobytes()


def raw_ts_bytes(arr):
    out = np.empty(len(arr), dtype=TS_LE)
    out['second_fractions'] = arr['second_fractions']
    out['seconds'] = arr['seconds']
    return out.tobytes()


def data_mismatch(arr, t, expect, raw_ts):
    """None if the library array equals the model values (bytes / list of str), else a short reason.

    `expect` is LE bytes for sized types and a list of str for strings."""
    if t == 'str':
        got = list(arr)
        if got != list(expect):
            return 'strings differ: got %d values %r, expected %d values %r' % (
                len(got), got[:4], len(expect), list(expect)[:4])
        return None
    size = fmt.size_of(t)
    n = len(expect) // size
    if len(arr) != n:
        return 'length %d, expected %d' % (len(arr), n)
    if t == 'ts':
        if raw_ts:
            if raw_ts_bytes(arr) != bytes(expect):
                return 'raw timestamps differ'
            return None
        lib = np.asarray(arr).astype('<M8[us]').view('<i8')
        for i in range(n):
            frac, sec = struct.unpack_from('<Qq', expect, i * 16)
            us = int(lib[i]) - int(EPOCH_US.astype('i8'))
            if not us_within_one(us, sec, frac):
                return 'timestamp %d: %d us, exact %s' % (i, us, exact_us(sec, frac))
        return None
    got = le_bytes(arr)
    if got != bytes(expect):
        for i in range(n):
            if got[i * size:(i + 1) * size] != expect[i * size:(i + 1) * size]:
                return 'value %d differs: got %s expected %s' % (
                    i, got[i * size:(i + 1) * size].hex(), bytes(expect[i * size:(i + 1) * size]).hex())
        return 'bytes differ'
    return None


def prop_mismatch(val, t, v, raw_ts):
    # the kind of value (integer / float / bool / text) and the value itself are what the statements speak about, not
    # whether it arrives as a Python or a numpy scalar
    import numbers
    if t in fmt.INT_RANGE:
        ok = isinstance(val, numbers.Integral) and not isinstance(val, (bool, np.bool_)) and int(val) == v
    elif t in ('f32', 'f64', 'f32u', 'f64u'):
        exp = struct.unpack('<f' if t in ('f32', 'f32u') else '<d', v)[0]
        ok = isinstance(val, (float, np.floating)) and ((math.isnan(val) and math.isnan(exp)) or (
            float(val) == exp and math.copysign(1, float(val)) == math.copysign(1, exp)))
    elif t == 'str':
        ok = isinstance(val, str) and val == v
    elif t == 'bool':
        ok = isinstance(val, (bool, np.bool_)) and bool(val) == bool(v)
    elif t == 'ts':
        sec, frac = v
        if raw_ts:
            ok = hasattr(val, 'second_fractions') and int(val.seconds) == sec and int(val.second_fractions) == frac
        else:
            try:
                us = int((np.datetime64(val, 'us') - EPOCH_US).astype('i8'))
                ok = us_within_one(us, sec, frac)
            except Exception:
                ok = False
    else:
        ok = False
    return None if ok else 'property value %r (%s), expected %s %r' % (val, type(val).__name__, t, v)


def props_mismatch(libprops, mprops, raw_ts):
    """libprops: dict-like from the library; mprops: OrderedDict name -> (type, value)."""
    if set(libprops.keys()) != set(mprops.keys()):
        return 'property names %r, expected %r' % (sorted(libprops.keys()), sorted(mprops.keys()))
    for name, (t, v) in mprops.items():
        m = prop_mismatch(libprops[name], t, v, raw_ts)
        if m:
            return '%r: %s' % (name, m)
    return None


def check_structure(tf, w, raw_ts, tagp='C01'):
    """Objects, hierarchy order and properties of an opened TdmsFile vs the model."""
    out = []
    gnames = [g.name for g in tf.groups()]
    if len(set(gnames)) != len(gnames):
        out.append(V(tagp + '.group-twice', gnames))
    declared = w.declared_groups()
    if [g for g in gnames if g in declared] != declared:
        out.append(V(tagp + '.group-order', 'groups %r, declared order %r' % (gnames, declared)))
    if set(gnames) != set(w.all_groups()):
        out.append(V(tagp + '.group-set', 'groups %r, expected %r' % (gnames, w.all_groups())))
    m = props_mismatch(tf.properties, w.props.get('/', {}), raw_ts)
    if m:
        out.append(V(tagp + '.props', 'root: ' + m, obj='root'))
    for g in tf.groups():
        if g.name not in w.all_groups():
            continue
        exp = [w.names[p][1] for p in w.group_channels(g.name)]
        got = [c.name for c in g.channels()]
        if got != exp:
            out.append(V(tagp + '.channel-order', 'group %r channels %r, expected %r' % (g.name, got, exp)))
        gp = fmt.quote_path(g.name)
        m = props_mismatch(g.properties, w.props.get(gp, {}), raw_ts)
        if m:
            out.append(V(tagp + '.props', 'group %r: %s' % (g.name, m), obj='group'))
        for c in g.channels():
            p = fmt.quote_path(g.name, c.name)
            if p not in w.chans:
                continue
            if c.path != p:
                out.append(V(tagp + '.path', '%r != %r' % (c.path, p)))
            m = props_mismatch(c.properties, w.props.get(p, {}), raw_ts)
            if m:
                out.append(V(tagp + '.props', 'channel %s: %s' % (p, m), obj='channel'))
    return out


def lib_channel(tf, w, path):
    g, c = w.names[path]
    return tf[g][c]
