"""Seeded search over worlds: forks workers, reduces results in seed order, minimises and writes a
replay file on a violation, writes the evidence file."""
import argparse
import faulthandler
import importlib
import json
import multiprocessing
import os
import random
import re
import subprocess
import sys
import time
import traceback
from concurrent.futures import ProcessPoolExecutor
from concurrent.futures.process import BrokenProcessPool

from .core import world_seed, merge_counts, VERIF_DIR
from .world import to_jsonable, from_jsonable
from . import findings as findings_mod

BATCH = 40
REAL_VS_STUB = {
    'real': ['all of nptdms (reader, segment decoders, daqmx, types, timestamp, scaling, tdms, writer)', 'numpy',
             'CPython generators', 'on RealFS worlds: builtin open / BufferedReader / ndarray.tofile / np.memmap'],
    'stub': ['storage (SimFS) on SimFS worlds', 'the LabVIEW/DAQmx producer (independent encoder, tdmssim/world.py)',
             'process crash (truncation)', 'I/O errors, short delivery and corruption (injected)'],
}


def load_profile(prop):
    return importlib.import_module('tdmssim.profiles.%s' % prop.lower())


def _library_frames(tb):
    """(innermost nptdms frame description, True if the exception was raised in or below library code)"""
    repo = os.path.realpath(os.environ.get('VERIF_REPO', '/repo'))
    last_lib = None
    last_harness = None
    depth = 0
    while tb is not None:
        fn = os.path.realpath(tb.tb_frame.f_code.co_filename)
        depth += 1
        if fn.startswith(os.path.join(repo, 'nptdms')):
            last_lib = (depth, '%s:%d %s' % (os.path.relpath(fn, repo), tb.tb_lineno, tb.tb_frame.f_code.co_name))
        elif fn.startswith(VERIF_DIR):
            last_harness = depth
        tb = tb.tb_next
    return last_lib, (last_lib is not None and (last_harness is None or last_lib[0] > last_harness))


def _exec_checked(profile, case, known):
    from . import simfs, lib
    ev0 = simfs.EVENTS[0]
    sim0 = lib.SIM_SECONDS[0]
    try:
        import contextlib
        low = isinstance(case, dict) and case.get('low_memory')
        simfs.DEFAULT_IO_LATENCY[0] = float(case.get('io_latency') or 0.0) if isinstance(case, dict) else 0.0
        with lib.knobs(dedup_chunk=case.get('dedup_chunk') if isinstance(case, dict) else None), \
                (lib.low_memory() if low else contextlib.nullcontext()):
            if isinstance(case, dict) and case.get('exc_in_flight'):
                try:
                    raise LookupError('the caller is handling this unrelated exception')
                except LookupError:
                    res = profile.execute(case)
                res.probe('exception-in-flight')
            else:
                res = profile.execute(case)
        if simfs.DEFAULT_IO_LATENCY[0]:
            res.probe('slow-storage')
            res.fault('slow-io')
        if low:
            res.probe('low-memory')
            res.fault('address-space-limit')
        if not res.io_events:
            res.io_events = simfs.EVENTS[0] - ev0
        res.sim_seconds = lib.SIM_SECONDS[0] - sim0
    except simfs.NoProgress as exc:
        from .core import Result
        from .compare import V
        res = Result()
        res.sig = ['no-progress']
        res.violations.append(V('%s.no-progress' % profile.PROP, 'a read loop does not terminate: %s' % exc))
        res.ev('no-progress', str(exc))
    except Exception as exc:
        # an exception that escapes from library code through a harness path that does not expect one is the
        # library misbehaving (on the unchanged tree no check raises), not a harness error
        lib_frame, from_lib = _library_frames(exc.__traceback__)
        if not from_lib:
            raise
        from .core import Result
        from .compare import V
        res = Result()
        res.sig = ['library-raised', type(exc).__name__]
        res.violations.append(V('%s.library-raised' % profile.PROP, 'unexpected %s from %s: %s' % (
            type(exc).__name__, lib_frame[1], exc), exc=type(exc).__name__))
        res.ev('library-raised', type(exc).__name__, lib_frame[1])
    bad, kn = findings_mod.split(known, res.violations)
    res.violations = bad
    res.known += kn
    return res


def run_batch(args):
    prop, tier, base_seed, start, count, world_timeout, deadline = args
    profile = load_profile(prop)
    known = findings_mod.load(prop)
    agg = {'start': start, 'n': 0, 'sigs': set(), 'nontrivial_sigs': set(), 'probes': {}, 'faults': {},
           'io_events': 0, 'steps': 0, 'compared': 0, 'skipped_ops': 0, 'backends': {}, 'sub_evals': 0, 'sim_seconds': 0.0,
           'known': {}, 'violation': None, 'samples': [], 'digests': [], 'gen_s': 0.0, 'exec_s': 0.0,
           'first_seed': None, 'last_seed': None}
    for run in range(start, start + count):
        if time.time() > deadline:
            break         # wall budget reached: the batch is reported as far as it got (the explored set stays a prefix)
        seed = world_seed(base_seed, prop, tier, run)
        if agg['first_seed'] is None:
            agg['first_seed'] = seed
        agg['last_seed'] = seed
        rng = random.Random(seed)
        faulthandler.dump_traceback_later(world_timeout, exit=True)
        try:
            t0 = time.perf_counter()
            case = make_case(profile, rng, run, tier)
            t1 = time.perf_counter()
            res = _exec_checked(profile, case, known)
            t2 = time.perf_counter()
        except Exception:
            faulthandler.cancel_dump_traceback_later()
            return {'harness_error': 'run %d seed %d:\n%s' % (run, seed, traceback.format_exc()), 'start': start}
        faulthandler.cancel_dump_traceback_later()
        if t2 - t0 > float(os.environ.get('VERIF_SLOW_S', '1e9')):
            sys.stderr.write('slow world: %s run %d seed %d: generate %.1fs execute %.1fs\n' % (prop, run, base_seed, t1 - t0, t2 - t1))
        agg['gen_s'] += t1 - t0
        agg['exec_s'] += t2 - t1
        s = res.summary()
        agg['n'] += 1
        agg['sigs'].add(s['sig'])
        if s['nontrivial']:
            agg['nontrivial_sigs'].add(s['sig'])
        merge_counts(agg['probes'], s['probes'])
        merge_counts(agg['faults'], s['faults'])
        for k in ('io_events', 'steps', 'compared', 'skipped_ops', 'sub_evals', 'sim_seconds'):
            agg[k] += s[k]
        agg['backends'][s['backend']] = agg['backends'].get(s['backend'], 0) + 1
        for fid, _v in s['known']:
            agg['known'][fid] = agg['known'].get(fid, 0) + 1
        if run < 3:
            try:
                agg['samples'].append(profile.sample(case))
            except Exception:
                return {'harness_error': 'sample() of run %d:\n%s' % (run, traceback.format_exc()), 'start': start}
        if run < 200:
            agg['digests'].append((run, s['digest']))
        if s['violations']:
            agg['violation'] = {'run': run, 'seed': seed, 'case': to_jsonable(case), 'violations': s['violations'],
                                'batch_start': start}
            break
    return agg


def run_batch_isolated(args):
    """Every batch runs in a fresh fork of the (world-free) pool worker, so the library state a world meets is the
    state left by the earlier worlds of *its own batch* only: process history is part of the explored space (state
    leaking between TdmsFile / TdmsWriter instances shows up) and stays a function of the seed, not of which worker
    picked the batch up."""
    ctx = multiprocessing.get_context('fork')
    rx, tx = ctx.Pipe(duplex=False)
    proc = ctx.Process(target=_batch_child, args=(tx, args))
    proc.start()
    tx.close()
    try:
        r = rx.recv()
    except EOFError:
        r = None
    proc.join()
    if r is None:
        return {'harness_error': 'batch process for runs %d.. died or timed out (exit code %s)' % (args[3], proc.exitcode),
                'start': args[3]}
    return r


def _batch_child(tx, args):
    try:
        r = run_batch(args)
    except BaseException:
        r = {'harness_error': 'batch %d:\n%s' % (args[3], traceback.format_exc()), 'start': args[3]}
    try:
        tx.send(r)
        tx.close()
    finally:
        os._exit(0)


class _Light(object):
    def __init__(self, violations, dig):
        self.violations = violations
        self.dig = dig


def fork_exec(profile, known, history, case, timeout=300):
    """Executes `history` (cases, results ignored) and then `case` in a fresh fork of this process, which has not
    executed any world: the clean-state semantics a replay in a new interpreter has, at the price of a fork."""
    import pickle
    from .compare import V
    r, w = os.pipe()
    pid = os.fork()
    if pid == 0:
        try:
            os.close(r)
            faulthandler.dump_traceback_later(timeout, exit=True)
            try:
                for h in history:
                    _exec_checked(profile, h, known)
                res = _exec_checked(profile, case, known)
                out = ('ok', [v.as_dict() for v in res.violations], res.digest())
            except BaseException:
                out = ('err', traceback.format_exc())
            with os.fdopen(w, 'wb') as f:
                pickle.dump(out, f)
        finally:
            os._exit(0)
    os.close(w)
    with os.fdopen(r, 'rb') as f:
        data = f.read()
    os.waitpid(pid, 0)
    if not data:
        raise RuntimeError('forked execution died or timed out')
    out = pickle.loads(data)
    if out[0] == 'err':
        raise RuntimeError(out[1])
    vs = []
    for d in out[1]:
        v = V(d['tag'], d['detail'], **d['sig'])
        vs.append(v)
    return _Light(vs, out[2])


def make_case(profile, rng, run, tier):
    gi = getattr(profile, 'generate_indexed', None)
    case = gi(run, rng, tier) if gi is not None else profile.generate(rng, tier)
    if isinstance(case, dict) and 'dedup_chunk' not in case:
        # swarm knob for every profile: block size of the reader's offset-array comparison (default 100 segments), so
        # that the multi-block paths run on files of a few segments.  Drawn after generation: worlds do not depend on it
        case['dedup_chunk'] = rng.choice([1, 2, 3, 100, 100])
    if isinstance(case, dict) and 'exc_in_flight' not in case:
        # the caller is in the middle of handling an unrelated exception (an except block, a finally or __exit__ that
        # runs because something is propagating): sys.exc_info() is not empty while the library works
        case['exc_in_flight'] = rng.random() < 0.08
    if isinstance(case, dict) and 'io_latency' not in case:
        # slow or stalling storage: every simulated read / write event takes this many seconds of simulated time (all clocks
        # the code under test can read are simulated), so that anything which expires, times out or is measured does so
        case['io_latency'] = rng.choice([0.4, 20.0, 700.0]) if rng.random() < 0.05 else 0.0
    if isinstance(case, dict) and 'low_memory' not in case:
        # the process is close to its address space limit (RLIMIT_AS = current size + 512 MiB): a failing allocation is
        # the fault; reading a file of a few KiB must not need memory in proportion to what its headers state
        # (only for worlds of less than 1 MiB of content, so that the harness' own bookkeeping - normal forms, digests -
        # stays far below the headroom)
        size, stated_huge = _payload(case, 2**20)
        # a world whose last segment states a 4 GiB chunk is where that fault bites: most of those run under the limit
        case['low_memory'] = rng.random() < (0.6 if stated_huge else 0.06) and size < 2**20
    return case


def _payload(obj, stop):
    """(bytes of content - strings, byte strings - held by a case, counted up to `stop`; whether a segment states a huge chunk)"""
    total = 0
    stated_huge = False
    todo = [obj]
    while todo and total < stop:
        x = todo.pop()
        if isinstance(x, (bytes, bytearray, str)):
            total += len(x)
        elif isinstance(x, dict):
            stated_huge = stated_huge or bool(x.get('declared_huge'))
            todo.extend(x.values())
        elif isinstance(x, (list, tuple)):
            todo.extend(x)
    return total, stated_huge


def regenerate(profile, prop, tier, base_seed, run):
    return make_case(profile, random.Random(world_seed(base_seed, prop, tier, run)), run, tier)


TZS = ['AEST-10', 'IST-5:30', 'EST5EDT', 'UTC0']


def current_env():
    return {'TZ': os.environ.get('TZ', ''), 'optimize': int(sys.flags.optimize)}


def secondary_start(prop, tier, base_seed, n, budget, workers):
    """The same first worlds once more in another process environment: `python -O -bb` (bytes/str comparisons are errors; assert statements and their side
    effects compiled away) and another local time zone.  Started next to the primary search; (Popen, time zone)."""
    n2 = max(1, n // 6)
    b2 = max(6.0, min(budget * 0.3, 12.0 if tier == 'quick' else 150.0))
    env = dict(os.environ, VERIF_TZ=TZS[(base_seed + 1) % len(TZS)], VERIF_OPTIMIZE='1', VERIF_SECONDARY='1')
    p = subprocess.Popen([sys.executable, os.path.join(VERIF_DIR, 'check'), prop, '--tier', tier, '--seed', str(base_seed),
                          '--n', str(n2), '--budget', str(b2), '--workers', str(max(2, workers // 4)), '--no-evidence'],
                         cwd=VERIF_DIR, stdout=subprocess.PIPE, stderr=subprocess.STDOUT, text=True, env=env,
                         start_new_session=True)      # its own process group: it and its workers are killed together
    return p, env['VERIF_TZ']


def secondary_kill(p):
    import signal
    try:
        os.killpg(p.pid, signal.SIGKILL)
    except (ProcessLookupError, PermissionError):
        pass
    try:
        p.communicate(timeout=10)
    except subprocess.TimeoutExpired:
        pass


def secondary_finish(p, prop, tier):
    out, _ = p.communicate()
    m = re.search(r'%s %s: (\d+) worlds' % (prop, tier), out)
    return p.returncode, int(m.group(1)) if m else 0, out


def write_replay(prop, tier, base_seed, run, seed, case, violations, extra=None):
    d = os.path.join(VERIF_DIR, 'replays')
    os.makedirs(d, exist_ok=True)
    path = os.path.join(d, '%s-%d-%d.json' % (prop, base_seed, run))
    doc = {'property': prop, 'tier': tier, 'base_seed': base_seed, 'run': run, 'world_seed': seed,
           'oracle_tag': violations[0]['tag'], 'violations': violations, 'case': to_jsonable(case),
           # the process environment the run depended on; ./check --replay re-creates it before importing anything
           'env': current_env()}
    if extra:
        doc.update(extra)
    with open(path, 'w') as f:
        json.dump(doc, f, indent=1, sort_keys=True)
    return path


def replay(prop, path, quiet=False):
    profile = load_profile(prop)
    with open(path) as f:
        doc = json.load(f)
    case = from_jsonable(doc['case'])
    for h in doc.get('history', []):
        # worlds handled earlier in the same process: the violation needs the state they leave behind
        _exec_checked(profile, from_jsonable(h), [])
    res = _exec_checked(profile, case, [])
    tags = [v.tag for v in res.violations]
    if not quiet:
        for v in res.violations:
            print('replayed violation: %s %s :: %s' % (v.tag, v.sig, str(v.detail)[:300]))
        print('replay digest %s' % res.digest())
    want = doc.get('oracle_tag')
    if want in tags or (want is None and tags):
        print('VIOLATION property=%s replay=%s' % (prop, path))
        return 1
    if tags:
        print('VIOLATION property=%s replay=%s' % (prop, path))
        print('note: oracle tag differs from the recorded one (%s vs %s)' % (tags, want))
        return 1
    print('replay: no violation')
    return 0


def known_finding_lines(prop):
    """Replays the stored reproducer of every open finding of this property."""
    lines = []
    profile = load_profile(prop)
    for f in findings_mod.load(prop):
        path = os.path.join(VERIF_DIR, f['reproducer'])
        try:
            with open(path) as fh:
                doc = json.load(fh)
            # through the same wrapper as the search: the case's generic knobs (low memory, exception in flight) apply
            res = _exec_checked(profile, from_jsonable(doc['case']), [])
            still = any(findings_mod.match([f], v) for v in res.violations)
        except Exception as exc:
            print('HARNESS-ERROR reproducer %s failed to run: %r' % (path, exc))
            sys.exit(2)
        if still:
            lines.append('KNOWN-FINDING: property=%s %s' % (prop, f['what']))
    return lines


def main(argv=None):
    ap = argparse.ArgumentParser()
    ap.add_argument('prop')
    ap.add_argument('--tier', default=os.environ.get('VERIF_TIER', 'quick'), choices=['quick', 'thorough'])
    ap.add_argument('--replay')
    ap.add_argument('--n', type=int)
    ap.add_argument('--budget', type=float)
    ap.add_argument('--workers', type=int, default=int(os.environ.get('VERIF_WORKERS', '16')))
    ap.add_argument('--seed', type=int)
    ap.add_argument('--no-evidence', action='store_true')
    ap.add_argument('--digests', help='write run digests to this file (determinism self-test)')
    a = ap.parse_args(argv)
    prop = a.prop.upper()
    if a.replay:
        return replay(prop, a.replay)
    profile = load_profile(prop)
    tier = a.tier
    if a.seed is not None:
        base_seed = a.seed
    elif os.environ.get('VERIF_SEED', '') != '':
        base_seed = int(os.environ['VERIF_SEED'])
    else:
        base_seed = 0 if tier == 'quick' else 1
    n = a.n if a.n is not None else profile.N[tier]
    if a.budget is not None:
        budget = a.budget
    elif os.environ.get('VERIF_BUDGET_S'):
        budget = float(os.environ['VERIF_BUDGET_S'])
    else:
        budget = getattr(profile, 'BUDGET', {'quick': 45, 'thorough': 600})[tier]
    world_timeout = getattr(profile, 'WORLD_TIMEOUT', 120)
    batch = getattr(profile, 'BATCH', BATCH)
    t0 = time.time()
    print('seed=%d property=%s tier=%s worlds<=%d budget=%ss workers=%d repo=%s' % (
        base_seed, prop, tier, n, budget, a.workers, os.environ.get('VERIF_REPO', '/repo')))
    for line in known_finding_lines(prop):
        print(line)
    deadline = t0 + budget
    sec = None
    if not os.environ.get('VERIF_SECONDARY') and not a.digests and not os.environ.get('VERIF_NO_SECONDARY'):
        sec = secondary_start(prop, tier, base_seed, n, budget, a.workers)
    tasks = [(prop, tier, base_seed, s, min(batch, n - s), world_timeout, deadline) for s in range(0, n, batch)]
    results = {}
    harness_error = None
    stopped_early = False
    ctx = multiprocessing.get_context('fork')
    try:
        with ProcessPoolExecutor(max_workers=a.workers, mp_context=ctx) as ex:
            pending = {}
            it = iter(tasks)
            done_submitting = False

            def submit_more():
                nonlocal done_submitting
                while len(pending) < a.workers * 2 and not done_submitting:
                    try:
                        t = next(it)
                    except StopIteration:
                        done_submitting = True
                        return
                    pending[ex.submit(run_batch_isolated, t)] = t

            submit_more()
            found = False
            while pending:
                from concurrent.futures import wait, FIRST_COMPLETED
                done, _ = wait(list(pending), return_when=FIRST_COMPLETED)
                for fut in done:
                    t = pending.pop(fut)
                    r = fut.result()
                    if 'harness_error' in r:
                        harness_error = r['harness_error']
                        done_submitting = True
                        continue
                    results[r['start']] = r
                    if r['n'] < t[4] and not r['violation']:
                        stopped_early = True
                    if r['violation']:
                        found = True
                if found or harness_error:
                    done_submitting = True
                if time.time() - t0 > budget and not done_submitting:
                    done_submitting = True
                    stopped_early = True
                submit_more()
    except BrokenProcessPool as exc:
        harness_error = 'worker died or timed out: %r' % (exc,)
    if harness_error:
        if sec is not None:
            secondary_kill(sec[0])
        print('HARNESS-ERROR property=%s' % prop)
        print(harness_error)
        return 2
    # reduce in seed order; the explored set is the longest prefix of batches that completed
    starts = sorted(results)
    prefix = []
    expect = 0
    for s in starts:
        if s != expect:
            break
        prefix.append(results[s])
        expect = s + results[s]['n'] if not results[s]['violation'] else None
        if expect is None:
            break
    viol = None
    for r in prefix:
        if r['violation']:
            viol = r['violation']
            break
    if viol is None:
        # a violation outside the contiguous prefix still counts
        for s in starts:
            if results[s]['violation']:
                viol = results[s]['violation']
                prefix = [results[x] for x in starts if x <= s]
                break
    tot = {'n': 0, 'sigs': set(), 'nontrivial_sigs': set(), 'probes': {}, 'faults': {}, 'backends': {}, 'known': {},
           'io_events': 0, 'steps': 0, 'compared': 0, 'skipped_ops': 0, 'sub_evals': 0, 'gen_s': 0.0, 'exec_s': 0.0, 'sim_seconds': 0.0}
    samples = []
    digests = []
    first_seed = last_seed = None
    for r in prefix:
        tot['n'] += r['n']
        tot['sigs'] |= r['sigs']
        tot['nontrivial_sigs'] |= r['nontrivial_sigs']
        for k in ('probes', 'faults', 'backends', 'known'):
            merge_counts(tot[k], r[k])
        for k in ('io_events', 'steps', 'compared', 'skipped_ops', 'sub_evals', 'gen_s', 'exec_s', 'sim_seconds'):
            tot[k] += r[k]
        samples += r['samples']
        digests += r['digests']
        if first_seed is None:
            first_seed = r['first_seed']
        last_seed = r['last_seed']
    wall = time.time() - t0
    minim = None
    replay_path = None
    if viol is not None:
        case = from_jsonable(viol['case'])
        tag = viol['violations'][0]['tag']
        known = findings_mod.load(prop)
        from . import shrink

        history = []
        hist_note = None

        def ex_(c):
            # every execution after detection happens in a fresh fork of this (world-free) process
            return fork_exec(profile, known, history, c)
        if not any(v.tag == tag for v in ex_(case).violations):
            # the violation does not show when the world is handled alone: it needs the library state left behind by the
            # worlds handled earlier in the same process (its batch); find the shortest such history
            full = [regenerate(profile, prop, tier, base_seed, r_) for r_ in range(viol['batch_start'], viol['run'])]
            history = full
            if not full or not any(v.tag == tag for v in ex_(case).violations):
                print('HARNESS-ERROR property=%s the violation of run %d (%s) reproduces neither alone nor after the %d '
                      'earlier worlds of its batch' % (prop, viol['run'], tag, len(full)))
                return 2
            for k in range(1, len(full) + 1):
                history = full[-k:]
                if any(v.tag == tag for v in ex_(case).violations):
                    break
            changed = True
            while changed and len(history) > 1:
                changed = False
                for i in range(len(history)):
                    cand = history[:i] + history[i + 1:]
                    keep = history
                    history = cand
                    if any(v.tag == tag for v in ex_(case).violations):
                        changed = True
                        break
                    history = keep
            hist_note = ('the violation needs process history: it does not occur when this world is handled in a fresh '
                         'process, it occurs after %d earlier world(s) were handled in the same process' % len(history))
            print('note: ' + hist_note)
        size0 = shrink.case_size(case)
        narrow = getattr(profile, 'narrow', None)
        if narrow is not None:
            try:
                c2 = narrow(case, viol['violations'][0])
                if c2 is not None and any(v.tag == tag for v in ex_(c2).violations):
                    case = c2
            except Exception:
                print('note: narrowing failed:\n' + traceback.format_exc())
        try:
            small, execs = shrink.minimise(case, ex_, profile.shrink_candidates, tag,
                                           budget_s=float(os.environ.get('VERIF_SHRINK_S', '120')))
        except Exception:
            small, execs = case, 0
            print('note: minimiser failed:\n' + traceback.format_exc())
        if history:
            # the history worlds are shrunk too (same candidates, the final world fixed)
            t_h = time.time()
            for i in range(len(history)):
                def ex_h(c, i=i):
                    return fork_exec(profile, known, history[:i] + [c] + history[i + 1:], small)
                try:
                    history[i], e2 = shrink.minimise(history[i], ex_h, profile.shrink_candidates, tag,
                                                     budget_s=max(5.0, float(os.environ.get('VERIF_SHRINK_S', '120')) / 2
                                                                  - (time.time() - t_h)))
                    execs += e2
                except Exception:
                    print('note: history minimiser failed:\n' + traceback.format_exc())
        r2 = ex_(small)
        vs = [v.as_dict() for v in r2.violations] or viol['violations']
        minim = {'original_size': size0, 'minimised_size': shrink.case_size(small), 'executions': execs}
        extra_doc = {'minimisation': minim, 'original_case': viol['case']}
        if history:
            extra_doc['history'] = [to_jsonable(h) for h in history]
            extra_doc['history_note'] = hist_note
            minim['history_worlds'] = len(history)
        replay_path = write_replay(prop, tier, base_seed, viol['run'], viol['seed'], small, vs, extra_doc)
        # must reproduce in a fresh interpreter
        p = subprocess.run([sys.executable, os.path.join(VERIF_DIR, 'check'), prop, '--replay', replay_path],
                           cwd=VERIF_DIR, capture_output=True, text=True,
                           env=dict(os.environ, PYTHONHASHSEED='0'))
        if p.returncode != 1:
            print('HARNESS-ERROR property=%s replay %s did not reproduce in a fresh interpreter (exit %d)\n%s\n%s' % (
                prop, replay_path, p.returncode, p.stdout[-2000:], p.stderr[-2000:]))
            return 2
        for v in vs[:5]:
            print('violation: %s %s :: %s' % (v['tag'], v['sig'], v['detail'][:400]))
        print('minimised %d -> %d bytes of case JSON in %d executions' % (
            minim['original_size'], minim['minimised_size'], execs))
    secondary = None
    if sec is not None and viol is not None:
        secondary_kill(sec[0])
    if viol is None and sec is not None:
        tz2 = sec[1]
        rc2, n2, out2 = secondary_finish(sec[0], prop, tier)
        secondary = {'TZ': tz2, 'optimize': 1, 'worlds': n2, 'exit': rc2}
        if rc2 == 1:
            for line in out2.splitlines():
                if line.startswith(('violation:', 'minimised', 'note:')):
                    print(line)
            m = re.search(r'^VIOLATION property=%s replay=(\S+)' % prop, out2, re.M)
            print('the violation was found in the secondary pass (python -O -bb, TZ=%s)' % tz2)
            print('VIOLATION property=%s replay=%s' % (prop, m.group(1) if m else '?'))
            return 1
        if rc2 != 0:
            print('HARNESS-ERROR property=%s secondary pass (python -O -bb, TZ=%s) exited %d\n%s' % (prop, tz2, rc2, out2[-3000:]))
            return 2
    zero = sorted(k for k in getattr(profile, 'EXPECTED_PROBES', []) if not tot['probes'].get(k))
    for k in zero:
        print('warning: reach probe %r was never hit' % k)
    for fid, cnt in sorted(tot['known'].items()):
        print('known finding %s matched %d time(s) during the search (masked for that comparison only)' % (fid, cnt))
    if not a.no_evidence:
        ev = {
            'property_id': prop, 'tier': tier, 'seed': base_seed, 'level': profile.LEVEL, 'wall_s': round(wall, 2),
            'violations': 0 if viol is None else 1,
            'coverage': {
                'evaluations': tot['n'], 'distinct_nontrivial': len(tot['nontrivial_sigs']),
                'distinct_signatures': len(tot['sigs']), 'rule': profile.RULE, 'samples': samples[:3],
                'runs_per_hour': int(tot['n'] / wall * 3600) if wall > 0 else 0,
                'seeds': {'base': base_seed, 'first_world_seed': first_seed, 'last_world_seed': last_seed,
                          'derivation': 'sha256("<base>:<property>:<tier>:<run>")[:8]'},
                'sim_steps': tot['steps'], 'io_events': tot['io_events'],
                'simulated_time': '%d I/O events and %d scheduled actions in event order; every clock the code under test can '
                                  'read (time.time / monotonic / perf_counter and their _ns forms) is simulated: %.0f simulated '
                                  'seconds were let pass as think time, slow-storage latency and wall-clock steps (the pinned '
                                  'tree reads a clock only to time debug log lines)' % (
                                      tot['io_events'], tot['steps'], tot['sim_seconds']),
                'sub_evaluations': tot['sub_evals'], 'compared_results': tot['compared'],
                'faults_fired': tot['faults'], 'probes': dict(sorted(tot['probes'].items())),
                'probes_never_hit': zero, 'backends': tot['backends'], 'real_vs_stub': REAL_VS_STUB,
                'skipped_ops': tot['skipped_ops'], 'known_findings_seen': tot['known'],
                'stopped_on_budget': stopped_early, 'workers': a.workers,
                'exhaustive': False,
                'environment': dict(current_env(), note='local time zone chosen by the seed; a secondary pass re-runs the first '
                                    'worlds under python -O -bb in another zone'),
                'secondary_pass': secondary,
                'process_history': 'worlds run in batches of %d, each batch in a fresh process: a world meets the library state '
                                   'left by the earlier worlds of its batch (violations that need such a history are replayed '
                                   'and minimised with it)' % batch,
                'time_split_s': {'generate': round(tot['gen_s'], 1), 'execute': round(tot['exec_s'], 1)},
            },
            'assumptions': getattr(profile, 'ASSUMPTIONS', []),
        }
        extra = getattr(profile, 'evidence_extra', None)
        if extra:
            ev['coverage'].update(extra(tot))
        if minim:
            ev['coverage']['minimisation'] = minim
        os.makedirs(os.path.join(VERIF_DIR, 'evidence'), exist_ok=True)
        with open(os.path.join(VERIF_DIR, 'evidence', '%s.json' % prop), 'w') as f:
            json.dump(ev, f, indent=1, sort_keys=True)
    if a.digests:
        with open(a.digests, 'w') as f:
            json.dump(sorted(digests), f)
    print('%s %s: %d worlds, %d distinct non-trivial, %d sub-evaluations, %.1fs, %d worlds/h%s' % (
        prop, tier, tot['n'], len(tot['nontrivial_sigs']), tot['sub_evals'], wall,
        int(tot['n'] / wall * 3600) if wall else 0, ' (stopped on budget)' if stopped_early else ''))
    if viol is not None:
        print('VIOLATION property=%s replay=%s' % (prop, replay_path))
        return 1
    return 0


