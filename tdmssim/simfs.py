"""SimFS: the simulated disk.  Files are bytearrays; every I/O call on a SimFile is an event with a
global sequence number; the descriptor table distinguishes library-owned from caller-owned
handles; read-type events can be made to fail (EIO) or deliver short (readinto only)."""
import builtins
import errno
import io
import os
import random


EVENTS = [0]      # process-wide count of simulated I/O events (for the evidence: 'simulated time')
REAL_OPEN = io.open            # captured before any seam is installed
REAL_STAT = os.stat
FAKE_FD_BASE = 1 << 20
SIM_ROOT = '/simfs/'           # simulated files live under this (non-existent) directory; relative names are simulated too


def sim_name(path):
    """The SimFS file name a path argument refers to, or None for a path of the real file system (absolute paths
    outside SIM_ROOT, file descriptors)."""
    if isinstance(path, int):
        return None
    try:
        p = os.fspath(path)
    except TypeError:
        return None
    if isinstance(p, bytes):
        p = os.fsdecode(p)
    if p.startswith(SIM_ROOT):
        return p[len(SIM_ROOT):]
    if os.path.isabs(p):
        return None
    while p.startswith('./'):
        p = p[2:]
    return p


DEFAULT_IO_LATENCY = [0.0]      # set per world by the runner's `io_latency` knob


class NoProgress(BaseException):
    """A handle was asked for data at end of file NO_PROGRESS_LIMIT times in a row without anything else happening to
    it: whoever reads it is not going to stop.  Liveness in simulated time (I/O steps), not wall-clock.  Derived from
    BaseException so that no `except Exception` between the stream and the runner swallows it."""


NO_PROGRESS_LIMIT = 20000


class SimFile(object):
    """Duck-typed binary file.  Deliberately not an io.IOBase subclass (IOBase.__del__ calls close())."""

    def __init__(self, fs, name, mode, owner, hid):
        self.fs = fs
        self.name = name
        self.mode = mode
        self.owner = owner            # 'library' | 'caller'
        self.hid = hid
        self._closed = False
        self.close_calls = 0
        self.local_reads = 0          # read-type events of this handle
        self.fail_local = None        # set of local read ordinals that raise EIO (transient: each fires once)
        self._pos = 0
        self._append = 'a' in mode
        self._can_read = 'r' in mode or '+' in mode
        self._can_write = 'w' in mode or 'a' in mode or '+' in mode
        # a handle is bound to the storage it was opened on (an inode), not to the name: renaming or replacing the
        # directory entry afterwards does not change what an open handle reads
        self._data = fs.files[fs.resolve(name)]
        if self._append:
            self._pos = len(self._data)

    # -- helpers
    def _buf(self):
        return self._data

    def _check(self):
        if self._closed:
            raise ValueError("I/O operation on closed file.")

    def _ev(self, op, pos, req, ret):
        fs = self.fs
        fs.seq += 1
        EVENTS[0] += 1
        if fs.io_latency and fs.clock is not None:
            fs.clock.advance(fs.io_latency)       # simulated time: this event took that long
        if fs.record:
            fs.log.append((fs.seq, self.hid, op, pos, req, ret))

    def _read_fault(self):
        fs = self.fs
        j = self.local_reads
        self.local_reads += 1
        if self.fail_local and j in self.fail_local:
            self.fail_local.discard(j)
            fs.read_events += 1
            fs.faults_fired['eio'] = fs.faults_fired.get('eio', 0) + 1
            self._ev('eio', self._pos, 0, 0)
            if getattr(self, 'fail_local_interrupt', False):
                fs.faults_fired['interrupt'] = fs.faults_fired.get('interrupt', 0) + 1
                raise KeyboardInterrupt('injected at read %d of this handle' % j)
            raise OSError(errno.EIO, 'injected transient I/O error (read %d of this handle)' % j)
        k = fs.read_events
        fs.read_events += 1
        if fs.fail_reads and k in fs.fail_reads:
            if getattr(fs, 'fail_with_interrupt', False):
                # the caller is interrupted while the library is inside a read (Ctrl-C): a BaseException
                fs.faults_fired['interrupt'] = fs.faults_fired.get('interrupt', 0) + 1
                self._ev('interrupt', self._pos, 0, 0)
                raise KeyboardInterrupt('injected at read event %d' % k)
            fs.faults_fired['eio'] = fs.faults_fired.get('eio', 0) + 1
            self._ev('eio', self._pos, 0, 0)
            raise OSError(errno.EIO, 'injected I/O error (read event %d)' % k)

    def _progress(self, made):
        if made:
            self._idle = 0
            return
        self._idle = getattr(self, '_idle', 0) + 1
        if self._idle > NO_PROGRESS_LIMIT:
            self.fs.faults_fired['no-progress'] = self.fs.faults_fired.get('no-progress', 0) + 1
            raise NoProgress('%d consecutive reads of %s at end of file (position %d) returned nothing' % (
                self._idle, self.name, self._pos))

    # -- file API
    def read(self, n=-1):
        self._check()
        if not self._can_read:
            raise io.UnsupportedOperation('read')
        self._read_fault()
        buf = self._buf()
        if n is None or n < 0:
            n = max(0, len(buf) - self._pos)
        out = bytes(buf[self._pos:self._pos + n])
        self._ev('read', self._pos, n, len(out))
        self._pos += len(out)
        self._progress(len(out) or n == 0)
        return out

    def readinto(self, b):
        self._check()
        if not self._can_read:
            raise io.UnsupportedOperation('read')
        self._read_fault()
        want = memoryview(b).nbytes
        if want == 0:
            self._ev('readinto', self._pos, 0, 0)
            return 0
        buf = self._buf()
        avail = max(0, len(buf) - self._pos)
        k = min(want, avail)
        if k > 1 and self.fs.short_rng is not None:
            r = self.fs.short_rng.random()
            if r < 0.25:
                k2 = 1
            elif r < 0.45:
                k2 = k // 2
            elif r < 0.6:
                k2 = k - 1
            elif r < 0.75:
                k2 = self.fs.short_rng.randint(1, k)
            else:
                k2 = k
            if k2 < k:
                self.fs.faults_fired['short_readinto'] = self.fs.faults_fired.get('short_readinto', 0) + 1
            k = k2
        if k:
            mv = memoryview(b).cast('B')
            mv[:k] = buf[self._pos:self._pos + k]
        self._ev('readinto', self._pos, want, k)
        self._pos += k
        self._progress(k)
        return k

    def write(self, data):
        self._check()
        if not self._can_write:
            raise io.UnsupportedOperation('write')
        data = bytes(data)
        fs = self.fs
        k = fs.write_events
        fs.write_events += 1
        if fs.fail_writes and k in fs.fail_writes:
            fs.faults_fired['enospc'] = fs.faults_fired.get('enospc', 0) + 1
            self._ev('enospc', self._pos, len(data), 0)
            raise OSError(errno.ENOSPC, 'injected: no space left on device (write event %d)' % k)
        buf = self._buf()
        if self._append:
            self._pos = len(buf)
        if self._pos > len(buf):
            buf.extend(b'\x00' * (self._pos - len(buf)))
        self.fs.writes.append((self.fs.seq + 1, self.hid, self.name, self._pos, len(data)))
        buf[self._pos:self._pos + len(data)] = data
        self._ev('write', self._pos, len(data), len(data))
        self._pos += len(data)
        return len(data)

    def seek(self, pos, whence=0):
        self._check()
        if whence == 0:
            new = pos
        elif whence == 1:
            new = self._pos + pos
        elif whence == 2:
            new = len(self._buf()) + pos
        else:
            raise ValueError('whence')
        if new < 0:
            raise OSError(errno.EINVAL, 'Invalid argument')
        self._pos = int(new)
        self._idle = 0
        self._ev('seek', self._pos, pos, whence)
        return self._pos

    def tell(self):
        self._check()
        return self._pos

    def flush(self):
        self._check()

    def close(self):
        self.close_calls += 1
        if not self._closed:
            self._closed = True
            self._ev('close', self._pos, 0, 0)

    @property
    def closed(self):
        return self._closed

    def readable(self):
        return self._can_read

    def writable(self):
        return self._can_write

    def seekable(self):
        return True

    def fileno(self):
        # a descriptor number no real descriptor has; os.fsync / os.fstat on it are answered by the seam (lib.installed)
        self._check()
        return FAKE_FD_BASE + self.hid

    def __enter__(self):
        self._check()
        return self

    def __exit__(self, *a):
        self.close()

    def __repr__(self):
        return '<SimFile %s %s %s>' % (self.name, self.mode, self.owner)


class _PathShim(object):
    def __init__(self, fs):
        self._fs = fs

    def isfile(self, p):
        if os.path.isabs(str(p)):
            return os.path.isfile(p)          # RealFS backend
        return str(p) in self._fs.files


class OsShim(object):
    """Stands in for the `os` module inside nptdms.reader (SEEK_* and path.isfile are all it uses)."""
    SEEK_SET = 0
    SEEK_CUR = 1
    SEEK_END = 2

    def __init__(self, fs):
        self.path = _PathShim(fs)


class SimFS(object):
    def __init__(self, short_seed=None, record=True):
        self.files = {}
        self.handles = []
        self.log = []
        self.writes = []
        self.seq = 0
        self.record = record
        self.read_events = 0
        self.fail_reads = None
        self.write_events = 0
        self.fail_writes = None
        self.open_events = 0          # library open() calls on simulated paths
        self.fail_fsync = False       # os.fsync on simulated descriptors is refused with EINVAL
        self.mtimes = {}              # name -> modification time (files have one default time unless a world says otherwise)
        self.max_open = None          # descriptor limit: open() fails with EMFILE while this many library handles are open
        self.fail_opens = None        # {k}: the k-th such open raises EMFILE / EACCES (descriptor table full, unreadable file)
        self.clock = None             # lib.SimClock, set by the store: simulated time of this world
        self.io_latency = DEFAULT_IO_LATENCY[0]     # simulated seconds every read / write event takes (a slow or stalling disk)
        self.links = {}               # symbolic links: name -> target name (content-addressed stores link names to blobs)
        self.faults_fired = {}
        self.short_rng = random.Random(short_seed) if short_seed is not None else None

    # -- storage
    def put(self, name, data):
        self.files[name] = bytearray(data)

    def get(self, name):
        return bytes(self.files[name])

    def symlink(self, target, name):
        """`name` becomes a symbolic link to `target`: every lookup by name follows it, as the real calls do."""
        self.links[name] = target

    def resolve(self, name):
        for _ in range(8):
            if name not in self.links:
                return name
            name = self.links[name]
        raise OSError(errno.ELOOP, 'Too many levels of symbolic links', name)

    def realpath(self, path):
        return SIM_ROOT + self.resolve(sim_name(path))

    def rename(self, old, new):
        """The directory entry moves; handles opened on `old` keep reading the same storage."""
        if old in self.links:
            self.links[new] = self.links.pop(old)        # the link itself moves
        else:
            self.files[new] = self.files.pop(old)
        self.faults_fired['rename-while-open'] = self.faults_fired.get('rename-while-open', 0) + 1

    def crash(self, name, cut):
        del self.files[name][cut:]
        self.faults_fired['crash'] = self.faults_fired.get('crash', 0) + 1

    def poke(self, name, offset, data):
        self.files[name][offset:offset + len(data)] = data
        self.faults_fired['corrupt'] = self.faults_fired.get('corrupt', 0) + 1

    # -- handles
    def _new(self, name, mode, owner):
        h = SimFile(self, name, mode, owner, len(self.handles))
        self.handles.append(h)
        return h

    def open(self, path, mode='r', *a, **kw):
        """Installed as `open` (builtins.open / io.open) while a store is active: simulated names are opened here,
        everything else on the real file system."""
        name = sim_name(path)
        if name is None:
            return REAL_OPEN(path, mode, *a, **kw)    # RealFS backend: the real file system
        shown, name = name, self.resolve(name)
        if 'b' not in mode:
            raise ValueError('SimFS only opens binary files')
        if self.max_open is not None and len(self.leaked()) >= self.max_open:
            # the process's descriptor table is full (RLIMIT_NOFILE): only handles the library itself holds are counted
            self.faults_fired['emfile'] = self.faults_fired.get('emfile', 0) + 1
            raise OSError(errno.EMFILE, 'Too many open files (descriptor limit %d)' % self.max_open, name)
        k = self.open_events
        self.open_events += 1
        if self.fail_opens is not None and k in self.fail_opens:
            self.faults_fired['open-fails'] = self.faults_fired.get('open-fails', 0) + 1
            if name.endswith('_index'):
                raise PermissionError(errno.EACCES, 'Permission denied (injected)', name)
            raise OSError(errno.EMFILE, 'Too many open files (injected)', name)
        if 'r' in mode:
            if name not in self.files:
                raise FileNotFoundError(errno.ENOENT, 'No such file or directory', name)
        elif 'w' in mode:
            if name in self.files:
                del self.files[name][:]        # O_TRUNC: the same storage is emptied, handles already open on it see that
            else:
                self.files[name] = bytearray()
        elif 'a' in mode:
            self.files.setdefault(name, bytearray())
        h = self._new(shown, mode, 'library')       # known by the name it was opened under, bound to the target's storage
        h._ev('open', 0, 0, 0)
        return h

    # -- what os.path / os.stat answer for simulated names
    def isfile(self, path):
        return self.resolve(sim_name(path)) in self.files

    def getsize(self, path):
        name = self.resolve(sim_name(path))
        if name not in self.files:
            raise FileNotFoundError(errno.ENOENT, 'No such file or directory', str(path))
        return len(self.files[name])

    def getmtime(self, path):
        name = self.resolve(sim_name(path))
        if name not in self.files:
            raise FileNotFoundError(errno.ENOENT, 'No such file or directory', str(path))
        return float(self.mtimes.get(name, 1700000000.0))

    def stat(self, path):
        import stat as stat_mod
        size = self.getsize(path)
        t = int(self.getmtime(path))
        return os.stat_result((stat_mod.S_IFREG | 0o644, 0, 0, 1, 0, 0, size, t, t, t))

    def by_fd(self, fd):
        if isinstance(fd, int) and fd >= FAKE_FD_BASE and fd - FAKE_FD_BASE < len(self.handles):
            return self.handles[fd - FAKE_FD_BASE]
        return None

    def fsync(self, fd):
        h = self.by_fd(fd)
        if h is None or h.closed:
            raise OSError(errno.EBADF, 'Bad file descriptor')
        if self.fail_fsync:
            # the destination is not a regular file (a character device, a FIFO): fsync is refused
            self.faults_fired['fsync-refused'] = self.faults_fired.get('fsync-refused', 0) + 1
            raise OSError(errno.EINVAL, 'Invalid argument')
        h._ev('fsync', h._pos, 0, 0)

    def fstat(self, fd):
        import stat as stat_mod
        h = self.by_fd(fd)
        if h is None or h.closed:
            raise OSError(errno.EBADF, 'Bad file descriptor')
        t = int(self.mtimes.get(h.name, 1700000000.0))
        return os.stat_result((stat_mod.S_IFREG | 0o644, 0, 0, 1, 0, 0, len(h._buf()), t, t, t))

    def stream(self, name, mode='rb'):
        """A handle created by the harness and handed to the library: caller-owned."""
        if self.resolve(name) not in self.files:
            self.files[name] = bytearray()
        return self._new(name, mode, 'caller')

    # -- descriptor accounting
    def leaked(self):
        return [h for h in self.handles if h.owner == 'library' and not h.closed]

    def foreign_closed(self):
        return [h for h in self.handles if h.owner == 'caller' and h.close_calls > 0]

    def mark(self):
        return len(self.log)

    def reads_since(self, mark):
        return [(ev[3], ev[5]) for ev in self.log[mark:] if ev[2] in ('read', 'readinto') and ev[5] > 0]

    def read_calls_since(self, mark):
        return [ev for ev in self.log[mark:] if ev[2] in ('read', 'readinto')]
