"""TDMS format tables and low-level encoders, written from the NI format description.

Shares nothing with nptdms (only `struct`).  All logical values are kept as
little-endian bytes; `to_endian` converts one value's bytes to a segment's byte order.
"""
import struct

# name -> (tds type code, size in bytes or None, numpy dtype string of the *logical* LE value)
TYPES = {
    'i8': (1, 1, '<i1'), 'i16': (2, 2, '<i2'), 'i32': (3, 4, '<i4'), 'i64': (4, 8, '<i8'),
    'u8': (5, 1, '<u1'), 'u16': (6, 2, '<u2'), 'u32': (7, 4, '<u4'), 'u64': (8, 8, '<u8'),
    'f32': (9, 4, '<f4'), 'f64': (10, 8, '<f8'),
    'f32u': (0x19, 4, '<f4'), 'f64u': (0x1A, 8, '<f8'),
    'str': (0x20, None, 'O'), 'bool': (0x21, 1, '?'),
    'ts': (0x44, 16, 'ts'),
    'c64': (0x08000c, 8, '<c8'), 'c128': (0x10000d, 16, '<c16'),
}
SIZED = [t for t, v in TYPES.items() if v[1] is not None]
ALL_TYPES = list(TYPES)
# struct codes for property values
PROP_STRUCT = {
    'i8': 'b', 'i16': 'h', 'i32': 'l', 'i64': 'q', 'u8': 'B', 'u16': 'H', 'u32': 'L', 'u64': 'Q',
    'f32': 'f', 'f64': 'd', 'f32u': 'f', 'f64u': 'd',
}
PROP_TYPES = list(PROP_STRUCT) + ['str', 'bool', 'ts']
INT_RANGE = {
    'i8': (-2**7, 2**7 - 1), 'i16': (-2**15, 2**15 - 1), 'i32': (-2**31, 2**31 - 1), 'i64': (-2**63, 2**63 - 1),
    'u8': (0, 2**8 - 1), 'u16': (0, 2**16 - 1), 'u32': (0, 2**32 - 1), 'u64': (0, 2**64 - 1),
}

# DAQmx scaler type codes -> (type name)
DAQMX_CODES = {'u8': 0, 'i8': 1, 'u16': 2, 'i16': 3, 'u32': 4, 'i32': 5, 'u64': 6, 'i64': 7, 'f32': 8, 'f64': 9}
DAQMX_RAW_TYPE = 0xFFFFFFFF
FORMAT_CHANGING = 0x00001269
DIGITAL_LINE = 0x0000126A

TOC_META = 1 << 1
TOC_NEWOBJ = 1 << 2
TOC_RAW = 1 << 3
TOC_INTERLEAVED = 1 << 5
TOC_BIGENDIAN = 1 << 6
TOC_DAQMX = 1 << 7

LEAD_IN = 28
UNKNOWN_OFFSET = 0xFFFFFFFFFFFFFFFF


def size_of(t):
    return TYPES[t][1]


def to_endian(t, le_bytes, e):
    """Bytes of a run of values of sized type t (logical LE) in byte order e."""
    if e == '<' or TYPES[t][1] == 1:
        return le_bytes
    size = TYPES[t][1]
    if t in ('c64', 'c128'):
        size //= 2        # real and imaginary parts are swapped separately, order kept
    b = bytearray(le_bytes)
    n = len(b) // size
    out = bytearray(len(b))
    for k in range(size):
        out[k::size] = b[size - 1 - k::size]
    assert len(out) == n * size
    return bytes(out)


def from_endian(t, raw, e):
    """Inverse of to_endian (it is an involution)."""
    return to_endian(t, raw, e)


def enc_string(s, e):
    b = s.encode('utf-8')
    return struct.pack(e + 'L', len(b)) + b


def enc_prop_value(t, v, e):
    if t in PROP_STRUCT:
        if t in ('f32', 'f64', 'f32u', 'f64u'):
            # v is LE bytes of the value (keeps NaN payloads)
            return to_endian(t, v, e)
        return struct.pack(e + PROP_STRUCT[t], v)
    if t == 'str':
        return enc_string(v, e)
    if t == 'bool':
        return b'\x01' if v else b'\x00'
    if t == 'ts':
        sec, frac = v
        if e == '<':
            return struct.pack('<Qq', frac, sec)
        return struct.pack('>qQ', sec, frac)
    raise ValueError(t)


def enc_lead_in(tag, toc, version, next_off, raw_off, e):
    return tag + struct.pack('<l', toc) + struct.pack(e + 'lQQ', version, next_off, raw_off)


def quote_path(*components):
    return '/' + '/'.join("'" + c.replace("'", "''") + "'" for c in components)
