"""Seeded programs for the real TdmsWriter (the second producer): sessions of write_segment calls,
their materialisation into nptdms objects, and the last-write-wins / concatenation model."""
import datetime
import struct

import numpy as np

from . import fmt, gen

EPOCH_UNIX_TO_1904_S = 2082844800      # seconds from 1904-01-01 to 1970-01-01

ND_DTYPES = ['<i1', '<i2', '<i4', '<i8', '<u1', '<u2', '<u4', '<u8', '<f4', '<f8', '<c8', '<c16', '?']
DT_TO_T = {'<i1': 'i8', '<i2': 'i16', '<i4': 'i32', '<i8': 'i64', '<u1': 'u8', '<u2': 'u16', '<u4': 'u32', '<u8': 'u64',
           '<f4': 'f32', '<f8': 'f64', '<c8': 'c64', '<c16': 'c128', '?': 'bool'}
WRAP_TYPES = {'Int8': 'i8', 'Int16': 'i16', 'Int32': 'i32', 'Int64': 'i64', 'Uint8': 'u8', 'Uint16': 'u16',
              'Uint32': 'u32', 'Uint64': 'u64', 'SingleFloat': 'f32', 'DoubleFloat': 'f64', 'String': 'str',
              'Boolean': 'bool'}
INT_BOUNDS = [2**7, 2**8, 2**15, 2**16, 2**31, 2**32, 2**63, 2**64]


# numpy datetime64 units the simulated caller uses, in microseconds; 'ns' (the unit pandas uses) holds whole microseconds
# here, because the format's timestamps are written with microsecond resolution
UNIT_US = {'us': 1, 'ms': 1000, 's': 10**6, 'm': 60 * 10**6, 'h': 3600 * 10**6, 'D': 86400 * 10**6}
UNITS = ['us', 'us', 'us', 'ms', 's', 'ns', 'ns', 'm', 'h', 'D']


TZ_MINUTES = [120, -330, 0, 345, -600]     # UTC offsets of the caller's timezone-aware datetimes, in minutes


def _dt(us, tzmin=None):
    """The datetime for `us` microseconds after 1970-01-01 UTC: naive (taken as UTC by the writer), or aware with the
    given UTC offset - the same instant either way."""
    base = datetime.datetime(1970, 1, 1) + datetime.timedelta(microseconds=us)
    if tzmin is None:
        return base
    return base.replace(tzinfo=datetime.timezone.utc).astimezone(datetime.timezone(datetime.timedelta(minutes=tzmin)))


class _LabelledStr(str):
    def __str__(self):
        return 'LabelledStr(%s)' % str.__str__(self)

    def __repr__(self):
        return 'LabelledStr(%s)' % str.__repr__(self)


def _str_like(text, how):
    if how == 'enum':
        import enum
        return enum.Enum('Mode', {'MEMBER': text}, type=str).MEMBER
    return _LabelledStr(text)


def to_unit(us, unit):
    return us * 1000 if unit == 'ns' else us // UNIT_US[unit]


def from_unit(v, unit):
    return v // 1000 if unit == 'ns' else v * UNIT_US[unit]


def float_truncation_affected(us):
    """True when the writer's float scaling of a sub-second microsecond count reads back one unit low
    (the recorded finding F-C07-us-truncation); written without reference to nptdms."""
    f = float(10**-6) / 2**-64
    frac = int(us * f)
    return int(frac / f) < us


# ------------------------------------------------------------------------------ generation
def gen_ts_us(rng):
    """microseconds since the unix epoch, within a sane range incl. pre-1904 values"""
    r = rng.random()
    if r < 0.1:
        sec = rng.choice([0, -1, -EPOCH_UNIX_TO_1904_S, -EPOCH_UNIX_TO_1904_S - 1, 1])
    else:
        sec = rng.randint(-4 * 10**9, 4 * 10**9)
    us = rng.randint(0, 999999) if rng.random() < 0.8 else rng.choice([0, 1, 999999, 500000])
    return sec * 10**6 + us


def gen_prop_value(rng):
    k = rng.random()
    if k < 0.22:
        r = rng.random()
        if r < 0.5:
            b = rng.choice([2**31, 2**63, -2**31, 2**64])
            v = b + rng.choice([-2, -1, 0, 1])
            if v >= 2**64:
                v = 2**64 - 1
            if v < -2**63:
                v = -2**63
        else:
            v = rng.choice([0, 1, -1, rng.randint(-2**31, 2**31 - 1), rng.randint(-2**63, 2**64 - 1)])
        return ['int', v]
    if k < 0.34:
        return ['float', gen.gen_values(rng, 'f64', 1).hex()]
    if k < 0.39:
        return ['bool', rng.random() < 0.5]
    if k < 0.42:
        return ['npbool', rng.random() < 0.5]
    if k < 0.56:
        if rng.random() < 0.12:
            # a member of an Enum with a str mix-in (class Mode(str, Enum)), or a str subclass with its own __str__: it *is*
            # the string it holds, whatever str() makes of it
            return ['strsub', gen.gen_text(rng), rng.choice(['enum', 'subclass'])]
        return ['str', gen.gen_text(rng)]
    if k < 0.64:
        if rng.random() < 0.25:
            # a timezone-aware datetime (datetime.now().astimezone(), ZoneInfo): the instant is what is stored
            return ['datetime', gen_ts_us(rng), rng.choice(TZ_MINUTES)]
        return ['datetime', gen_ts_us(rng)]
    if k < 0.72:
        unit = rng.choice(UNITS)
        us = gen_ts_us(rng)
        return ['datetime64', to_unit(us, unit), unit]
    if k < 0.84:
        dt = rng.choice(['<i1', '<i2', '<i4', '<i8', '<u1', '<u2', '<u4', '<u8', '<f4', '<f8'])
        return ['np', dt, gen.gen_values(rng, DT_TO_T[dt], 1).hex()]
    if k < 0.87:
        # an explicit wrapper built from a numpy scalar of another (possibly same-width) type
        name = rng.choice([n for n, t in WRAP_TYPES.items() if t in fmt.INT_RANGE or t in ('f32', 'f64')])
        t = WRAP_TYPES[name]
        dt = rng.choice(['<i1', '<i2', '<i4', '<i8', '<u1', '<u2', '<u4', '<u8'] + (['<f4', '<f8'] if t in ('f32', 'f64') else []))
        lo, hi = fmt.INT_RANGE.get(t, (-1000, 1000))
        dlo, dhi = fmt.INT_RANGE.get(DT_TO_T[dt], (-1000, 1000))
        v = rng.randint(max(lo, dlo, -1000), min(hi, dhi, 1000))
        return ['wrapnp', name, dt, v]
    if k < 0.94:
        name = rng.choice(list(WRAP_TYPES))
        t = WRAP_TYPES[name]
        if t in fmt.INT_RANGE:
            lo, hi = fmt.INT_RANGE[t]
            return ['wrap', name, rng.choice([lo, hi, 0, rng.randint(lo, hi)])]
        if t == 'f64':
            return ['wrap', name, struct.unpack('<d', gen.gen_values(rng, 'f64', 1))[0] if rng.random() < 0.5 else 1.5]
        if t == 'f32':
            return ['wrap', name, struct.unpack('<f', gen.gen_values(rng, 'f32', 1))[0] if rng.random() < 0.5 else 1.5]
        if t == 'str':
            return ['wrap', name, gen.gen_text(rng)]
        return ['wrap', name, rng.random() < 0.5]
    b = gen.gen_values(rng, 'ts', 1, 2**36)
    frac, sec = struct.unpack('<Qq', b)
    return ['tdmsts', sec, frac]


def gen_props(rng, light=False):
    if rng.random() < (0.7 if light else 0.45):
        return None if rng.random() < 0.5 else []
    out = []
    names = set()
    for _ in range(rng.randint(1, 3)):
        name = rng.choice(['p', 'q', 'unit_string', 'é', 'NI_x', 'description', 'r', 'wf_increment'])
        if name in names:
            continue
        names.add(name)
        out.append([name, gen_prop_value(rng)])
    return out


def gen_channel_kind(rng):
    k = rng.random()
    if k < 0.55:
        return {'form': 'nd', 'dtype': rng.choice(ND_DTYPES)}
    if k < 0.62:
        return {'form': 'list-int', 'cls': rng.randrange(8)}
    if k < 0.66:
        return {'form': 'list-float'}
    if k < 0.80:
        return {'form': rng.choice(['strs-list', 'strs-obj', 'strs-U'])}
    if k < 0.92:
        return {'form': 'dt64', 'unit': rng.choice(UNITS)}
    if k < 0.96:
        return {'form': 'dt-list'}
    return {'form': 'tsarray'}


def gen_channel_data(rng, kind, allow_empty=True):
    n = rng.randint(0 if allow_empty else 1, 6) if rng.random() < 0.9 else rng.randint(50, 120)
    form = kind['form']
    d = dict(kind)
    if form == 'nd' and rng.random() < 0.004:
        # beyond 1 MiB of raw data: any block / buffer size of the write path is crossed
        size = np.dtype(kind['dtype']).itemsize
        n = rng.randint(int(1.05 * 2**20 / size), int(2.3 * 2**20 / size))
    if form == 'nd':
        t = DT_TO_T[kind['dtype']]
        d['hex'] = gen.gen_values(rng, t, n).hex()
        d['view'] = rng.random() < 0.15       # non-contiguous view of a larger array
        r_ = rng.random()
        d['arr'] = 'readonly' if r_ < 0.05 else ('reversed' if r_ < 0.1 else None)   # other legal array kinds
        # the ChannelObject is built around another array first and gets this one assigned to .data afterwards (one
        # object reused for successive blocks of a stream)
        d['reassign'] = rng.random() < 0.06
        # same values held in a big-endian (non-native) array; never empty: an empty array of a dtype the
        # writer cannot map has no determinable TDMS type and is written as a channel without data
        d['be'] = n > 0 and rng.random() < 0.04
    elif form == 'list-int':
        n = max(1, n)
        # a list whose inferred dtype class is fixed per channel: one forcing value at a boundary of
        # the writer's inference, the rest anywhere inside the class
        cls = kind['cls']
        spec = [
            (-2**7, 2**7 - 1, [-2**7, 2**7 - 1, 0]),
            (0, 2**8 - 1, [2**7, 2**8 - 1]),
            (-2**15, 2**15 - 1, [-2**7 - 1, -2**15, 2**8, 2**15 - 1]),
            (0, 2**16 - 1, [2**15, 2**16 - 1]),
            (-2**31, 2**31 - 1, [-2**15 - 1, -2**31, 2**16, 2**31 - 1]),
            (0, 2**32 - 1, [2**31, 2**32 - 1]),
            (-2**63, 2**63 - 1, [-2**31 - 1, -2**63, 2**32, 2**63 - 1]),
            (0, 2**64 - 1, [2**63, 2**64 - 1]),
        ][cls]
        lo, hi, forcing = spec
        vals = [rng.choice([lo, hi, 0, rng.randint(lo, hi)]) for _ in range(n)]
        vals[rng.randrange(n)] = rng.choice(forcing)
        if cls in (2, 4, 6):
            # keep signed classes signed-looking or large enough: nothing to do, forcing value decides
            pass
        d['ints'] = vals
    elif form == 'list-float':
        n = max(1, n)
        d['floats'] = [rng.choice([0.0, 1.5, -2.25, 1e300, rng.random()]) for _ in range(n)]
    elif form in ('strs-list', 'strs-obj', 'strs-U'):
        n = max(1, n) if n < 50 else 8
        strs = [gen.gen_text(rng) for _ in range(n)]
        if form == 'strs-U':
            strs = [s.replace('\x00', 'x') for s in strs]       # numpy U strings strip trailing NULs
        d['strs'] = strs
    elif form == 'dt64':
        d['ints'] = [to_unit(gen_ts_us(rng), kind['unit']) for _ in range(n)]
    elif form == 'dt-list':
        n = max(1, n)
        d['us'] = [rng.randint(-2 * 10**15, 4 * 10**15) for _ in range(n)]
        if rng.random() < 0.25:
            d['tz'] = rng.choice(TZ_MINUTES)
    elif form == 'tsarray':
        d['hex'] = gen.gen_values(rng, 'ts', n, 2**36).hex()
    if form in ('list-int', 'list-float', 'strs-list', 'dt-list'):
        d['tuple'] = rng.random() < 0.1
    return d


def retype_variant(rng, pv):
    """The same numeric value expressed through another accepted Python / numpy / wrapper type (another TDMS
    type, often with identical bytes) - what a later write_segment may legitimately assign to the same property."""
    k = pv[0]
    v = None
    if k == 'int':
        v = pv[1]
    elif k in ('bool', 'npbool'):
        v = int(pv[1])
    elif k == 'np' and DT_TO_T[pv[1]] in fmt.INT_RANGE:
        v = int(np.frombuffer(bytes.fromhex(pv[2]), dtype=pv[1])[0])
    elif k == 'wrap' and WRAP_TYPES[pv[1]] in fmt.INT_RANGE:
        v = pv[2]
    elif k == 'wrap' and pv[1] == 'Boolean':
        v = int(pv[2])
    if v is None:
        if k == 'float':
            x = struct.unpack('<d', bytes.fromhex(pv[1]))[0]
            return rng.choice([['np', '<f8', pv[1]], ['wrap', 'DoubleFloat', x]]) if x == x else None
        return None
    cands = []
    if -2**63 <= v < 2**64:
        cands.append(['int', v])
    if v in (0, 1):
        cands += [['bool', bool(v)], ['wrap', 'Boolean', bool(v)]]
    for dt in ('<i1', '<i2', '<i4', '<i8', '<u1', '<u2', '<u4', '<u8'):
        lo, hi = fmt.INT_RANGE[DT_TO_T[dt]]
        if lo <= v <= hi:
            cands.append(['np', dt, np.array([v], dtype=dt).tobytes().hex()])
    for name, t in WRAP_TYPES.items():
        if t in fmt.INT_RANGE and fmt.INT_RANGE[t][0] <= v <= fmt.INT_RANGE[t][1]:
            cands.append(['wrap', name, v])
    if abs(v) < 2**24:
        cands.append(['np', '<f4', struct.pack('<f', float(v)).hex()])
    cands = [c for c in cands if expected_prop(c)[0] != expected_prop(pv)[0]]
    return rng.choice(cands) if cands else None


def gen_program(rng, max_calls=8):
    nasty = rng.random() < 0.2
    # names from a tiny fixed pool in some programs: files written one after another in a process then share paths
    if rng.random() < 0.3:
        name_of = lambda kind: rng.choice(['G', 'H'] if kind == 'g' else ['a', 'b', 'c', 'd'])
    else:
        name_of = lambda kind: gen.gen_name(rng, nasty)
    groups = []
    for _ in range(rng.randint(1, 3)):
        g = name_of('g')
        if g not in groups:
            groups.append(g)
    chans = []
    for _ in range(rng.randint(1, 5)):
        g = rng.choice(groups)
        c = name_of('c')
        if (g, c) not in [(x['group'], x['channel']) for x in chans]:
            chans.append({'group': g, 'channel': c, 'kind': gen_channel_kind(rng)})
    ncalls = rng.randint(1, max_calls)
    calls = []
    written = {}
    shared = []
    # some groups are first used in a later call only (writer session state: which parents were declared)
    first_call = {g: (rng.randint(1, ncalls - 1) if (ncalls > 1 and rng.random() < 0.35) else 0) for g in groups}
    for ci in range(ncalls):
        objs = []
        if rng.random() < 0.3:
            objs.append({'kind': 'root', 'props': gen_props(rng)})
        for g in groups:
            if ci < first_call[g]:
                continue
            if rng.random() < (0.6 if ci == first_call[g] and ci > 0 else 0.25):
                objs.append({'kind': 'group', 'group': g, 'props': gen_props(rng)})
        for ch in chans:
            if ci < first_call[ch['group']]:
                continue
            if rng.random() < (0.9 if ci == first_call[ch['group']] and ci > 0 else 0.6):
                data = gen_channel_data(rng, ch['kind'])
                if data['form'] in ('nd', 'dt64'):
                    same = [d_ for d_ in shared if d_['form'] == data['form'] and d_.get('dtype') == data.get('dtype')
                            and d_.get('unit') == data.get('unit')]
                    if same and rng.random() < 0.3:
                        # the caller hands over the very same array object again (one time axis for several channels,
                        # one block written to two segments): the writer must not have changed it
                        data = dict(rng.choice(same))
                    elif rng.random() < 0.25:
                        data['shared'] = len(shared)
                        shared.append(data)
                objs.append({'kind': 'channel', 'group': ch['group'], 'channel': ch['channel'],
                             'data': data, 'props': gen_props(rng, light=True)})
        # a property assigned earlier is assigned again with the same value through another type
        for o in objs:
            key = (o['kind'], o.get('group'), o.get('channel'))
            prev = written.get(key)
            if prev and rng.random() < 0.3:
                name, pv = rng.choice(prev)
                nv = retype_variant(rng, pv)
                if nv is not None:
                    o['props'] = [x for x in (o.get('props') or []) if x[0] != name] + [[name, nv]]
            for x in (o.get('props') or []):
                written.setdefault(key, []).append(x)
        if rng.random() < 0.45:
            rng.shuffle(objs)
        if rng.random() < 0.02 and objs:
            objs.append(dict(objs[0]))        # duplicate path: the writer must reject the call
        calls.append(objs)
    # session splits decided by the scheduler
    sessions = []
    cur = []
    for c in calls:
        cur.append(c)
        if rng.random() < 0.3:
            sessions.append(cur)
            cur = []
    if cur:
        sessions.append(cur)
    return {'sessions': sessions, 'version': rng.choice([4712, 4713]),
            # the file is always opened for appending, also the first time, when it does not exist yet (a logger's habit)
            'first_mode': 'a' if rng.random() < 0.1 else 'w',
            # with-block, explicit open() and close(), or (writers on the caller's streams) neither
            'lifecycle': rng.choice(['with'] * 7 + ['open-close', 'open-close', 'bare']),
            # how the objects of a segment are handed over: a list, a tuple, or a one-shot iterable
            # (writer.write_segment(ChannelObject(g, n, a) for n, a in data.items()))
            'objects_as': rng.choice(['list'] * 7 + ['tuple', 'generator', 'generator']),
            # the caller builds its objects once and updates them in place before each further write_segment call
            'keep_objects': rng.random() < 0.15,
            # in-memory destinations whose truth value is False
            'falsy_streams': rng.random() < 0.2}


# ------------------------------------------------------------------------------ materialisation
def make_value(nptdms, pv):
    k = pv[0]
    if k == 'int':
        return pv[1]
    if k == 'float':
        return struct.unpack('<d', bytes.fromhex(pv[1]))[0]
    if k in ('bool', 'str'):
        return pv[1]
    if k == 'strsub':
        return _str_like(pv[1], pv[2])
    if k == 'npbool':
        return np.bool_(pv[1])
    if k == 'datetime':
        return _dt(pv[1], pv[2] if len(pv) > 2 else None)
    if k == 'datetime64':
        return np.datetime64(pv[1], pv[2])
    if k == 'np':
        return np.frombuffer(bytes.fromhex(pv[2]), dtype=pv[1])[0]
    if k == 'wrap':
        return getattr(nptdms.types, pv[1])(pv[2])
    if k == 'wrapnp':
        return getattr(nptdms.types, pv[1])(np.dtype(pv[2]).type(pv[3]))
    if k == 'tdmsts':
        return nptdms.timestamp.TdmsTimestamp(pv[1], pv[2])
    raise ValueError(k)


def make_data(nptdms, d, cache=None):
    if cache is not None and d.get('shared') is not None:
        if d['shared'] not in cache:
            cache[d['shared']] = _make_data(nptdms, d)
        return cache[d['shared']]
    return _make_data(nptdms, d)


def _make_data(nptdms, d):
    form = d['form']
    if form == 'nd':
        a = np.frombuffer(bytes.fromhex(d['hex']), dtype=d['dtype']).copy()
        if d.get('view'):
            big = np.zeros(len(a) * 2, dtype=a.dtype)
            big[::2] = a
            a = big[::2]
        if d.get('be'):
            a = a.astype(a.dtype.newbyteorder('>'))
        elif d['dtype'] in ('<i8', '<u8') and len(d['hex']) % 48 == 0:
            # the long-long spelling of the same 64 bit type (np.frombuffer(buf, '<q'), np.longlong, array.array('q')): equal
            # as a dtype, different as a type object
            a = a.astype(np.dtype('q' if d['dtype'] == '<i8' else 'Q'))
        if d.get('arr') == 'reversed':
            a = a[::-1].copy()[::-1]          # the same values through a negative stride
        elif d.get('arr') == 'readonly':
            a.flags.writeable = False
        return a
    seq = tuple if d.get('tuple') else list       # a tuple is the same sequence: if it is accepted, its values round-trip
    if form == 'list-int':
        return seq(d['ints'])
    if form == 'list-float':
        return seq(d['floats'])
    if form == 'strs-list':
        return seq(d['strs'])
    if form == 'strs-obj':
        return np.array(d['strs'], dtype=object)
    if form == 'strs-U':
        return np.array(d['strs'])
    if form == 'dt64':
        return np.array(d['ints'], dtype='datetime64[%s]' % d['unit'])
    if form == 'dt-list':
        return seq([_dt(u, d.get('tz')) for u in d['us']])
    if form == 'tsarray':
        arr = np.frombuffer(bytes.fromhex(d['hex']), dtype=[('second_fractions', '<u8'), ('seconds', '<i8')]).copy()
        return nptdms.timestamp.TimestampArray(arr)
    raise ValueError(form)


def make_objects(nptdms, call, cache=None):
    """cache: per-program dict of array objects that several calls / channels share (the same object, not a copy)."""
    out = []
    kept = cache.setdefault('__objects__', {}) if (cache is not None and cache.get('__keep__')) else None
    for o in call:
        props = None if o.get('props') is None else {name: make_value(nptdms, pv) for name, pv in o['props']}
        if kept is not None:
            # the caller keeps its writer objects between calls and updates them in place: the properties dict it handed over
            # the first time is cleared and refilled, the data attribute is assigned
            key = (o['kind'], o.get('group'), o.get('channel'))
            old = kept.get(key)
            new_data = make_data(nptdms, o['data'], cache) if (old is not None and o['kind'] == 'channel') else None
            # (data is assigned only as a numpy array: lists and tuples are converted by the constructor, not by assignment)
            if old is not None and props is not None and isinstance(getattr(old, 'properties', None), dict) \
                    and not (o['kind'] == 'channel' and (o['data'].get('reassign') or type(new_data) is not np.ndarray)):
                old.properties.clear()
                old.properties.update(props)
                if o['kind'] == 'channel':
                    old.data = new_data
                out.append(old)
                continue
        if o['kind'] == 'root':
            out.append(nptdms.RootObject(props))
        elif o['kind'] == 'group':
            out.append(nptdms.GroupObject(o['group'], props))
        else:
            data = make_data(nptdms, o['data'], cache)
            if o['data'].get('reassign') and isinstance(data, np.ndarray):
                first = np.zeros(3, dtype='<f8' if data.dtype.kind != 'f' else '<i2')
                obj = nptdms.ChannelObject(o['group'], o['channel'], first, props)
                obj.data = data
                out.append(obj)
            else:
                out.append(nptdms.ChannelObject(o['group'], o['channel'], data, props))
        if kept is not None:
            kept[(o['kind'], o.get('group'), o.get('channel'))] = out[-1]
    return out


# ------------------------------------------------------------------------------ model
def expected_prop(pv):
    """(tdms type name, model value) per the mapping C07 states."""
    k = pv[0]
    if k == 'int':
        v = pv[1]
        if v >= 2**63:
            return 'u64', v
        if v >= 2**31 or v < -2**31:
            return 'i64', v
        return 'i32', v
    if k == 'float':
        return 'f64', bytes.fromhex(pv[1])
    if k in ('bool', 'npbool'):
        return 'bool', pv[1]
    if k in ('str', 'strsub'):
        return 'str', pv[1]
    if k == 'datetime':
        return 'ts-us', pv[1]
    if k == 'datetime64':
        return 'ts-us', from_unit(pv[1], pv[2])
    if k == 'np':
        t = DT_TO_T[pv[1]]
        b = bytes.fromhex(pv[2])
        if t in fmt.INT_RANGE:
            return t, int(np.frombuffer(b, dtype=pv[1])[0])
        return t, b
    if k == 'wrap':
        t = WRAP_TYPES[pv[1]]
        if t in ('f32', 'f64'):
            return t, struct.pack('<f' if t == 'f32' else '<d', pv[2])
        return t, pv[2]
    if k == 'wrapnp':
        t = WRAP_TYPES[pv[1]]
        if t in ('f32', 'f64'):
            return t, struct.pack('<f' if t == 'f32' else '<d', float(pv[3]))
        return t, pv[3]
    if k == 'tdmsts':
        return 'ts', [pv[1], pv[2]]
    raise ValueError(k)


def data_model(d):
    """(category, values) : category decides how read-back data is compared."""
    form = d['form']
    if form == 'nd':
        return ('nd', d['dtype'], bytes.fromhex(d['hex']))
    if form == 'list-int':
        return ('ints', None, list(d['ints']))
    if form == 'list-float':
        return ('nd', '<f8', np.array(d['floats'], dtype='<f8').tobytes())
    if form in ('strs-list', 'strs-obj', 'strs-U'):
        return ('strs', None, list(d['strs']))
    if form == 'dt64':
        return ('us', None, [from_unit(v, d['unit']) for v in d['ints']])
    if form == 'dt-list':
        return ('us', None, list(d['us']))
    if form == 'tsarray':
        return ('rawts', None, bytes.fromhex(d['hex']))
    raise ValueError(form)


class WriterModel(object):
    """Concatenation / last-write-wins over the calls the writer accepted."""
    def __init__(self):
        self.objects = []            # paths in order of first appearance (root, groups, channels)
        self.props = {}              # path -> {name: property descriptor}
        self.chans = {}              # path -> [category, dtype, values]
        self.names = {}
        self.segments = []           # per accepted call: {path: n values} (for C06)

    def _touch(self, path, comps):
        if path not in self.props:
            self.props[path] = {}
            self.objects.append(path)
            self.names[path] = comps

    def accept(self, call):
        self._touch('/', [])
        seg = {}
        for o in call:
            if o['kind'] == 'channel':
                self._touch(fmt.quote_path(o['group']), [o['group']])
        for o in call:
            if o['kind'] == 'root':
                path = '/'
            elif o['kind'] == 'group':
                path = fmt.quote_path(o['group'])
                self._touch(path, [o['group']])
            else:
                path = fmt.quote_path(o['group'], o['channel'])
                self._touch(path, [o['group'], o['channel']])
                cat, dt, vals = data_model(o['data'])
                cur = self.chans.get(path)
                if cur is None:
                    self.chans[path] = [cat, dt, vals if not isinstance(vals, bytes) else bytearray(vals)]
                else:
                    if isinstance(vals, (bytes, bytearray)):
                        cur[2] += vals
                    else:
                        cur[2] = cur[2] + vals
                seg[path] = len(make_len(o['data']))
            for name, pv in (o.get('props') or []):
                self.props[path][name] = pv
        self.segments.append(seg)


def make_len(d):
    form = d['form']
    if form == 'nd':
        return range(len(bytes.fromhex(d['hex'])) // np.dtype(d['dtype']).itemsize)
    if form == 'tsarray':
        return range(len(bytes.fromhex(d['hex'])) // 16)
    for k in ('ints', 'floats', 'strs', 'us'):
        if k in d:
            return range(len(d[k]))
    return range(0)


def must_accept(call):
    """True when every object of the call is plainly inside the domain C07 names, so that a rejection by
    the writer is itself a violation.  Deliberately narrow: duplicates and empty arrays whose element type
    cannot be inferred (str / datetime / raw timestamp forms) are left to 'accepts is observed'."""
    paths = set()
    for o in call:
        key = (o['kind'], o.get('group'), o.get('channel'))
        if key in paths:
            return False
        paths.add(key)
        if o['kind'] == 'channel':
            d = o['data']
            if d['form'] != 'nd' and len(make_len(d)) == 0:
                return False
            if d.get('be') or d.get('tuple') or d.get('reassign'):
                return False        # non-native byte order input, a tuple instead of a list, .data assigned later: accepted or not is observed
        for _name, pv in (o.get('props') or []):
            if pv[0] == 'int' and not (-2**63 <= pv[1] < 2**64):
                return False
    return True
