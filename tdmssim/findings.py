"""Known findings: genuine defects recorded (not repaired) in /verif/known_findings.json.

An entry: {id, property, status: open|fixed, tag, match: {sig key: value}, reproducer: file under
/verif/findings, what}.  Only `open` entries mask anything, and only the comparison whose
violation has the same oracle tag and whose signature contains every `match` item.  The file is
never written at run time."""
import json
import os

from .core import VERIF_DIR

PATH = os.path.join(VERIF_DIR, 'known_findings.json')


def load(prop=None):
    if not os.path.exists(PATH):
        return []
    with open(PATH) as f:
        items = json.load(f)['findings']
    return [x for x in items if x.get('status') == 'open' and (prop is None or x['property'] == prop)]


def match(findings, v):
    for f in findings:
        if f['tag'] != v.tag:
            continue
        if all(str(v.sig.get(k)) == str(val) for k, val in f.get('match', {}).items()):
            return f
    return None


def split(findings, violations):
    """(unlisted violations, [(finding id, violation)])."""
    bad, known = [], []
    for v in violations:
        f = match(findings, v)
        if f is None:
            bad.append(v)
        else:
            known.append((f['id'], v))
    return bad, known
