"""C08 - TdmsWriter emits structurally valid segments and a faithful index file.

The real TdmsWriter is driven by a seeded program on simulated storage so that the write trace
is available; after EVERY write_segment the bytes appended by that call are parsed by an
independent strict parser (invariant while the run proceeds)."""
from .. import lib, wgen, wexec, parser, fmt
from ..backends import store
from ..compare import V
from ..core import Result, digest
from ..parser import Structural

PROP = 'C08'
LEVEL = 'exploration'
N = {'quick': 60000, 'thorough': 3000000}
RULE = ('seeded TdmsWriter programs (1-8 write_segment calls, 0-6 objects each over every supported array dtype / '
        'list / string / datetime form and property value type, nasty names, session splits with mode="a", version '
        '4712/4713, index off / True / stream) on SimFS path, SimFile stream, BytesIO or a real path; after every '
        'call the appended bytes must parse as exactly one self-consistent segment, declare root first and groups '
        'no later than their channels, and the index file must equal the data file '
        'minus raw data with TDSm->TDSh. distinct = (object kinds/forms per call, sessions, sink, index); '
        'non-trivial = at least one accepted call wrote a channel with data')
EXPECTED_PROBES = ['string-channel', 'index-file', 'append-session', 'rejected-call', 'empty-array']


def generate(rng, tier):
    prog = wgen.gen_program(rng)
    sink = rng.choice(['simpath', 'simpath', 'simstream', 'bytesio', 'realpath', 'minimal'])
    return {'program': prog, 'sink': sink, 'index': rng.random() < 0.5,
            # the data file's name: an index file belongs beside it under <name>_index whatever the name looks like
            'fname': rng.choice(['out.tdms'] * 4 + ['OUT.TDMS', 'capture', 'out.tdms.part', 'my data.tdms', 'run.1.dat'])}


def prog_sig(prog):
    return [[[(o['kind'], o.get('data', {}).get('form'), o.get('data', {}).get('dtype'),
               len(wgen.make_len(o['data'])) if 'data' in o else None,
               [pv[0] for _n, pv in (o.get('props') or [])]) for o in call] for call in sess]
            for sess in prog['sessions']]


def check_trace(tr, st, sink, with_index, res, tagp='C08'):
    """Structural invariants over a finished (or partial) trace.  Returns violations."""
    out = []
    data = tr.data
    declared_groups = set()
    root_declared = False
    segs = []
    pstate = None
    for i, rec in enumerate(tr.calls):
        if not rec['accepted']:
            res.probe('rejected-call')
            if rec['after'] != rec['before'] or rec['iafter'] != rec['ibefore']:
                out.append(V(tagp + '.rejected-call-wrote-bytes', 'call %d raised %s but left %d data / %d index byte(s) '
                             'in the file' % (i, rec['exc'], rec['after'] - rec['before'], rec['iafter'] - rec['ibefore'])))
            continue
        a, b = rec['before'], rec['after']
        try:
            seg = parser.parse_segment(data[:b], a, state=pstate)
            pstate = seg['state']
        except Structural as exc:
            out.append(V(tagp + '.segment-invalid', 'call %d: %s' % (i, exc.what), **exc.sig))
            return out
        if seg['end'] != b:
            out.append(V(tagp + '.segment-extent', 'call %d appended %d bytes but the segment it describes is %d bytes' % (
                i, b - a, seg['end'] - a)))
            return out
        segs.append(seg)
        # parents first: objects are taken in the order the segment lists them
        for o in seg['objects']:
            if len(o['comps']) == 0:
                root_declared = True
            elif len(o['comps']) == 1:
                declared_groups.add(o['comps'][0])
            elif o['comps'][0] not in declared_groups:
                out.append(V(tagp + '.group-after-channel', 'call %d: channel %s is listed before its group was declared' % (
                    i, o['path'])))
        if not root_declared:
            out.append(V(tagp + '.root-not-first', 'call %d: the first segment of the file does not declare "/"' % i))
        if any(o['index'] == 'full' and o['type'] == 'str' for o in seg['objects']):
            res.probe('string-channel')
        if any(o['index'] == 'full' and o['count'] == 0 for o in seg['objects']):
            res.probe('empty-array')
        if any(o['index'] == 'full' for o in seg['objects']):
            res.nontrivial = True
        if with_index:
            ia, ib = rec['ibefore'], rec['iafter']
            exp = b'TDSh' + data[a + 4:seg['data_pos']]
            got = (tr.index or b'')[ia:ib]
            if got != exp:
                out.append(V(tagp + '.index-differs', 'call %d: index bytes appended (%d) differ from the data segment minus '
                             'raw data (%d bytes)' % (i, len(got), len(exp))))
        res.compared += 1
    # whole-file view
    try:
        whole = parser.parse_file(data)
        if [s['pos'] for s in whole] != [s['pos'] for s in segs]:
            out.append(V(tagp + '.file-walk', 'walking the file by next-segment offsets visits %s, calls wrote segments at %s' % (
                [s['pos'] for s in whole][:8], [s['pos'] for s in segs][:8])))
    except Structural as exc:
        if not out:
            out.append(V(tagp + '.segment-invalid', 'whole-file parse: %s' % exc.what, **exc.sig))
    if with_index and tr.index is None and segs and not out:
        out.append(V(tagp + '.index-missing', 'an index file was requested and %d segment(s) were written, but there is no '
                     'index file beside the data file (<data file name>_index, where readers look for it)' % len(segs)))
    if with_index and tr.index is not None and not out:
        exp = b''.join(b'TDSh' + data[s['pos'] + 4:s['data_pos']] for s in segs)
        if tr.index != exp:
            out.append(V(tagp + '.index-differs', 'index file (%d bytes) is not the data file with raw data removed and '
                         'TDSm->TDSh (%d bytes)' % (len(tr.index), len(exp))))
        res.probe('index-file')
    return out


def execute(case):
    res = Result()
    prog = case['program']
    res.sig = [prog_sig(prog), case['sink'], case['index'], prog['version']]
    res.backend = case['sink']
    if len(prog['sessions']) > 1:
        res.probe('append-session')
    with store(record=False) as st:
        try:
            tr = wexec.run_program(st, prog, case['sink'], case['index'], name=case.get('fname', 'out.tdms'))
        except Exception as exc:
            res.violations.append(V('C08.writer-raises', 'outside write_segment: %s: %s' % (type(exc).__name__, exc),
                                    exc=type(exc).__name__))
            return res
        res.steps = len(tr.calls)
        res.violations += check_trace(tr, st, case['sink'], case['index'], res)
        res.ev('bytes', digest(tr.data), digest(tr.index or b''), [r['accepted'] for r in tr.calls])
    return res


def shrink_candidates(case):
    from ..shrink import list_candidates
    import copy
    prog = case['program']
    calls = [c for s in prog['sessions'] for c in s]
    # fewer calls (one session)
    for cand in list_candidates(calls, keep_min=1):
        c = dict(case)
        c['program'] = dict(prog, sessions=[cand])
        yield c
    if len(prog['sessions']) > 1:
        c = dict(case)
        c['program'] = dict(prog, sessions=[calls])
        yield c
    for k, v in (('index', False), ('sink', 'simpath')):
        if case[k] != v:
            c = dict(case)
            c[k] = v
            yield c
    # fewer objects per call, fewer properties
    for si, sess in enumerate(prog['sessions']):
        for ci, call in enumerate(sess):
            for cand in list_candidates(call):
                p2 = copy.deepcopy(prog)
                p2['sessions'][si][ci] = cand
                c = dict(case)
                c['program'] = p2
                yield c
            for oi, o in enumerate(call):
                if o.get('props'):
                    for cand in list_candidates(o['props']):
                        p2 = copy.deepcopy(prog)
                        p2['sessions'][si][ci][oi]['props'] = cand
                        c = dict(case)
                        c['program'] = p2
                        yield c


def sample(case):
    return {'program': prog_sig(case['program']), 'sink': case['sink'], 'index': case['index']}
