"""C06 - a file cut short by a crash reads as a prefix of the complete file.

Crash injection: the crash-point dimension is enumerated per world (every cut offset from 4 to
the file length), worlds are seeded."""
import random

from .. import gen, lib, ops
from ..backends import store
from ..compare import V
from ..core import Result, digest
from ..world import build
from . import _lazy
from .c01 import shape_sig

PROP = 'C06'
LEVEL = 'fault_enumeration'
N = {'quick': 400, 'thorough': 40000}
BATCH = 8
RULE = ('seeded small worlds (1-4 segments, <=3 channels, contiguous / interleaved / strings / no-metadata '
        'segments, last lead-in explicit or carrying the 0xFFFFFFFFFFFFFFFF marker); the producer crashes at EVERY '
        'byte offset 4..len of each world (exhaustive per world for files up to 3000 bytes; longer files - wide DAQmx rows, long channels - at every '
        'lead-in / metadata offset, every chunk boundary +-1 and a seeded sample of >= 500 other raw-data offsets); each truncated file is read eagerly and '
        'lazily (+ seeded lazy windows; every 16th cut also through a real path, every 7th through BytesIO / a buffered / an unbuffered real file, every 7th by path with the complete .tdms_index beside it) and compared with the prefix '
        'oracle. evaluations = worlds, sub_evaluations = crash points. distinct = segment shape sequence; '
        'non-trivial = some cut fell strictly inside raw data that holds values')
EXPECTED_PROBES = ['cut-with-index-beside', 'cut-via:rawfile', 'cut:lead-in', 'cut:metadata', 'cut:chunk-boundary', 'cut:mid-row-interleaved', 'cut:mid-value',
                   'cut:string-offsets', 'cut:string-bytes', 'marker:contiguous', 'marker:interleaved', 'daqmx-world', 'writer-made-file']
ASSUMPTIONS = ['crash model = prefix truncation at a byte offset (what the statement names); holes and reordered '
               'writes are not modelled']


def opts(tier):
    o = gen.Opts()
    o.max_segments = 4
    o.many_segments_p = 0.0
    o.max_channels = 3
    o.max_count = 5
    o.big_count_p = 0.0
    o.max_chunks = 3
    o.unknown_offset_p = 0.35
    o.nasty_names = 0.05
    o.pad_p = 0.03
    o.declared_huge_p = 0.1          # the last segment states a chunk of 4 GiB and holds a few rows of it
    o.declared_huge_rows_only = True
    return gen.deepen(o, tier)


def generate(rng, tier):
    if rng.random() < 0.15:
        # the real TdmsWriter as producer: its own sequence of write() calls is what the crash tears
        from .. import wgen
        prog = wgen.gen_program(rng, max_calls=3)
        for sess in prog['sessions']:
            for call in sess:
                for ob in call:
                    d = ob.get('data')
                    if d and len(wgen.make_len(d)) > 40:
                        ob['data'] = wgen.gen_channel_data(rng, {k: v for k, v in d.items() if k in ('form', 'dtype', 'unit', 'cls')})
                        if len(wgen.make_len(ob['data'])) > 40:
                            ob['data'] = {'form': 'nd', 'dtype': '<i4', 'hex': '01000000', 'view': False}
        return {'writer': prog, 'spec': None, 'raw_ts': rng.random() < 0.5, 'cuts': None, 'win_seed': rng.getrandbits(32)}
    o = opts(tier)
    if rng.random() < 0.6:
        o.props = False
    from .c11 import maybe_daqmx_world
    spec = maybe_daqmx_world(rng, 0.12)
    if spec is None:
        spec, w, _ = gen.gen_world(rng, o)
    else:
        w = build(spec)
    cuts = sample_cuts(rng, w)
    return {'spec': spec, 'raw_ts': rng.random() < 0.5, 'cuts': cuts, 'sampled': cuts is not None, 'win_seed': rng.getrandbits(32),
            # C06 worlds have few segments: the block size of the reader's offset-array comparison is small in most of them,
            # so that its multi-block paths meet cut files
            'dedup_chunk': rng.choice([1, 1, 2, 2, 3, 100])}


def sample_cuts(rng, w, limit=3000):
    """None (= every byte offset) for files up to `limit` bytes; for longer files every offset inside a lead-in or
    metadata block, every chunk boundary +-1, the end of file, and a seeded sample of the remaining raw-data offsets."""
    n = len(w.data)
    if n - 4 <= limit:
        return None
    keep = {n}
    for s in w.segs:
        keep.update(range(max(4, s.pos), min(n, s.data_pos) + 1))
        if s.chunk_size:
            for b in range(s.data_pos, min(s.end, n) + 1, s.chunk_size):
                keep.update(x for x in (b - 1, b, b + 1) if 4 <= x <= n)
    if len(keep) > limit:
        keep = set(rng.sample(sorted(keep), limit)) | {n}
    rest = [c for c in range(4, n + 1) if c not in keep]
    keep.update(rng.sample(rest, min(len(rest), max(500, limit - len(keep)))))
    return sorted(keep)


def classify_cut(w, c):
    for s in w.segs:
        if s.pos <= c < s.pos + 28:
            return 'lead-in'
        if s.pos + 28 <= c < s.data_pos:
            return 'metadata'
        if s.data_pos <= c < s.end or (c == s.end and s is w.segs[-1]):
            if s.chunk_size and (c - s.data_pos) % s.chunk_size == 0:
                return 'chunk-boundary'
            if s.layout == 'interleaved':
                return 'mid-row-interleaved'
            if s.layout == 'daqmx':
                return 'daqmx-buffer'
            # contiguous: which object does the cut fall into
            off = (c - s.data_pos) % s.chunk_size if s.chunk_size else 0
            for (p, h, idx) in s.active:
                if not h:
                    continue
                if idx['type'] == 'str':
                    size = idx['strbytes']
                    if off < size:
                        return 'string-offsets' if off < 4 * idx['count'] else 'string-bytes'
                else:
                    from .. import fmt
                    vs = fmt.size_of(idx['type'])
                    size = idx['count'] * vs
                    if off < size:
                        return 'mid-value' if off % vs else 'value-boundary'
                off -= size
            return 'other'
    return 'end'


def expected_incomplete(w, c):
    for s in w.segs:
        if s.unknown and c >= s.data_pos:
            if s.data_pos < c < s.end:
                return True
            return None
    return w.cut_inside_raw(c)


def check_cut(w, c, raw_ts, st, res, win_rng, real=False, backend=None, index_beside=False):
    out = []
    name = 'w.tdms'
    if backend is None:
        backend = 'realpath' if real else 'simstream'
    st.put(name, w.data[:c], real=backend in ('realpath', 'realfile', 'rawfile'))
    if index_beside:
        # the producer keeps the small index file ahead of the data file: after the crash the complete index sits beside
        # the cut data file, and a read by path finds it
        st.put(name + '_index', w.index, real=backend == 'realpath')
    else:
        st.remove(name + '_index')
    try:
        eager = lib.TdmsFile.read(st.source(backend, name), raw_timestamps=raw_ts)
    except Exception as exc:
        return [V('C06.eager-raises', 'cut %d: %s: %s' % (c, type(exc).__name__, exc), exc=type(exc).__name__)]
    guaranteed = w.guaranteed(c)
    seen = set()
    eager_norm = {}
    for g in eager.groups():
        for chn in g.channels():
            path = chn.path
            seen.add(path)
            ch = w.chans.get(path)
            if ch is None:
                out.append(V('C06.invented-object', 'cut %d: %s' % (c, path)))
                continue
            try:
                data = chn[:] if ch.type != 'daqmx' else chn.raw_scaler_data
            except Exception as exc:
                out.append(V('C06.eager-raises', 'cut %d: %s[:] %s: %s' % (c, path, type(exc).__name__, exc),
                             exc=type(exc).__name__))
                continue
            gn = ops.norm(data)
            n = _lazy.full_len(gn) if gn[0] != 'arr' or gn[1] != 'V' else 0
            eager_norm[path] = gn
            res.compared += 1
            if n > ch.count:
                out.append(V('C06.invents-data', 'cut %d: %s has %d values, complete file has %d' % (c, path, n, ch.count)))
                continue
            if n < guaranteed[path]:
                out.append(V('C06.loses-complete-segments', 'cut %d: %s has %d values, %d lie in segments wholly '
                             'before the cut' % (c, path, n, guaranteed[path])))
            if len(chn) != n:
                out.append(V('C06.len', 'cut %d: %s len()=%d but %d values returned' % (c, path, len(chn), n)))
            if ch.type == 'daqmx' and n > 0:
                exp = _lazy.take_norm(_lazy.model_full(ch, raw_ts), range(n))
                if gn != exp:
                    out.append(V('C06.not-a-prefix', 'cut %d: %s DAQmx scaler data is not a prefix of the complete file' % (c, path),
                                 type='daqmx'))
            if ch.type not in (None, 'daqmx') and n > 0:
                exp = ops.model_norm(ch, range(n), raw_ts)
                if not ops.agree(gn, exp):
                    out.append(V('C06.not-a-prefix', 'cut %d: %s values are not a prefix of the complete file: got %s '
                                 'expected %s' % (c, path, _lazy._short(gn), _lazy._short(exp)), type=ch.type))
    for path, gmin in guaranteed.items():
        if gmin > 0 and path not in seen:
            out.append(V('C06.loses-complete-segments', 'cut %d: channel %s missing, %d values guaranteed' % (c, path, gmin)))
    exp_inc = expected_incomplete(w, c)
    try:
        got_inc = bool(eager.file_status.incomplete_final_segment)
        if exp_inc is not None and got_inc != exp_inc:
            out.append(V('C06.status', 'cut %d (%s): incomplete_final_segment=%s, expected %s' % (
                c, classify_cut(w, c), got_inc, exp_inc), expected=exp_inc))
    except Exception as exc:
        out.append(V('C06.status-raises', 'cut %d: %s' % (c, exc)))
    # lazy
    try:
        lazy = lib.TdmsFile.open(st.source(backend, name), raw_timestamps=raw_ts)
    except Exception as exc:
        out.append(V('C06.lazy-raises', 'cut %d: open %s: %s' % (c, type(exc).__name__, exc), exc=type(exc).__name__))
        return out
    if c % 9 == 4:
        # the caller keeps the channel objects and lets go of the TdmsFile (a helper that returns channels)
        import gc
        lazy = ops.KeptChannels(lazy, w)
        gc.collect()
        res.probe('file-object-dropped')
    try:
        for path, gn in eager_norm.items():
            chn = ops.chan(lazy, w, path)
            isdaq = w.chans[path].type == 'daqmx'
            got, exc, eo = ops.try_op(lambda: ops.norm(chn[:] if not isdaq else chn.read_data(scaled=False)))
            if exc:
                out.append(V('C06.lazy-raises', 'cut %d: %s[:] %s: %s' % (c, path, exc, eo), exc=exc))
                continue
            if got != gn and not (_lazy.full_len(gn) == 0 and _lazy.full_len(got) == 0):
                out.append(V('C06.lazy-eager-differ', 'cut %d: %s lazy %s eager %s' % (
                    c, path, _lazy._short(got), _lazy._short(gn))))
                continue
            if len(chn) != _lazy.full_len(gn):
                out.append(V('C06.len', 'cut %d: lazy %s len()=%d but %d values' % (c, path, len(chn), _lazy.full_len(gn))))
            n = _lazy.full_len(gn)
            if n and gn[0] != 'dict':
                for _ in range(2):
                    off = win_rng.randint(0, n)
                    ln = win_rng.choice([None, win_rng.randint(0, n + 1)])
                    op = {'op': 'read_data', 'ch': path, 'offset': off, 'length': ln}
                    v, _g, _e = _lazy.check_op(lazy, w, op, gn, 'C06.lazy-window', 'lazy')
                    if v is not None:
                        v.detail = 'cut %d: %s' % (c, v.detail)
                        out.append(v)
        got_inc = bool(lazy.file_status.incomplete_final_segment)
        if exp_inc is not None and got_inc != exp_inc:
            out.append(V('C06.status', 'cut %d: lazy incomplete_final_segment=%s, expected %s' % (c, got_inc, exp_inc),
                         expected=exp_inc))
    finally:
        lazy.close()
    return out


def execute_writer(case):
    """Writer-made file: reference = what the same reader returns for the complete file; segment extents from the
    independent strict parser; then every cut."""
    import io
    from .. import wexec, parser
    from .c08 import prog_sig
    res = Result()
    prog = case['writer']
    res.sig = ['writer', prog_sig(prog)]
    res.probe('writer-made-file')
    raw_ts = case['raw_ts']
    with store(record=False) as st:
        try:
            tr = wexec.run_program(st, prog, 'bytesio', False, name='prod.tdms')
            segs = parser.parse_file(tr.data)
            full = lib.TdmsFile.read(io.BytesIO(tr.data), raw_timestamps=raw_ts)
        except Exception as exc:
            res.skipped_ops += 1          # C07 / C08 judge the writer; nothing to cut here
            res.ev('source-unusable', type(exc).__name__)
            return res
        data = tr.data
        ref = {}
        for g in full.groups():
            for c in g.channels():
                try:
                    ref[c.path] = ops.norm(c[:])
                except Exception:
                    ref[c.path] = None
        counts = []
        for sg in segs:
            counts.append({o['path']: o['count'] for o in sg['objects'] if o['index'] == 'full'})
        cuts = case['cuts'] if case['cuts'] is not None else list(range(4, len(data) + 1))
        for c in cuts:
            res.sub_evals += 1
            res.steps += 1
            inside = any(sg['data_pos'] <= c < sg['end'] for sg in segs)      # the first byte lost is a raw-data byte
            boundary = False
            if inside:
                res.nontrivial = True
            guaranteed = {}
            for sg, cn in zip(segs, counts):
                if sg['end'] <= c:
                    for p_, n_ in cn.items():
                        guaranteed[p_] = guaranteed.get(p_, 0) + n_
            vs = []
            got = {}
            for mode in ('eager', 'lazy'):
                try:
                    src = io.BytesIO(data[:c])
                    tf = lib.TdmsFile.read(src, raw_timestamps=raw_ts) if mode == 'eager' else lib.TdmsFile.open(src, raw_timestamps=raw_ts)
                except Exception as exc:
                    vs.append(V('C06.%s-raises' % mode, 'writer-made file, cut %d: %s: %s' % (c, type(exc).__name__, exc),
                                exc=type(exc).__name__))
                    continue
                try:
                    cur = {}
                    for g in tf.groups():
                        for ch in g.channels():
                            r, exc, eo = ops.try_op(lambda: ops.norm(ch[:]))
                            if exc:
                                vs.append(V('C06.%s-raises' % mode, 'writer-made file, cut %d: %s[:] %s: %s' % (c, ch.path, exc, eo), exc=exc))
                                continue
                            cur[ch.path] = r
                            n = _lazy.full_len(r)
                            full_r = ref.get(ch.path)
                            res.compared += 1
                            if full_r is None:
                                continue
                            if len(ch) != n:
                                vs.append(V('C06.len', 'writer-made file, cut %d: %s %s len()=%d, %d values' % (c, mode, ch.path, len(ch), n)))
                            if n > _lazy.full_len(full_r):
                                vs.append(V('C06.invents-data', 'writer-made file, cut %d: %s has %d values, complete file %d' % (
                                    c, ch.path, n, _lazy.full_len(full_r))))
                            elif n and r != _lazy.take_norm(full_r, range(n)):
                                vs.append(V('C06.not-a-prefix', 'writer-made file, cut %d: %s %s is not a prefix of the complete file' % (
                                    c, mode, ch.path)))
                            if n < guaranteed.get(ch.path, 0):
                                vs.append(V('C06.loses-complete-segments', 'writer-made file, cut %d: %s has %d values, %d guaranteed' % (
                                    c, ch.path, n, guaranteed[ch.path])))
                    for p_, n_ in guaranteed.items():
                        if n_ and p_ not in cur:
                            vs.append(V('C06.loses-complete-segments', 'writer-made file, cut %d: %s missing (%d guaranteed)' % (c, p_, n_)))
                    got[mode] = cur
                    flag = bool(tf.file_status.incomplete_final_segment)
                    if not boundary and flag != inside:
                        vs.append(V('C06.status', 'writer-made file, cut %d: %s incomplete_final_segment=%s, expected %s' % (c, mode, flag, inside),
                                    expected=inside))
                finally:
                    if mode == 'lazy':
                        tf.close()
            if 'eager' in got and 'lazy' in got:
                for p_, r in got['eager'].items():
                    l_ = got['lazy'].get(p_)
                    if l_ is not None and l_ != r and not (_lazy.full_len(l_) == 0 and _lazy.full_len(r) == 0):
                        vs.append(V('C06.lazy-eager-differ', 'writer-made file, cut %d: %s' % (c, p_)))
            for v in vs:
                v.sig['kind'] = 'writer-made'
            res.violations += vs
            res.ev(c, [v.tag for v in vs])
            if len(res.violations) > 3:
                break
        res.fault('crash', len(cuts))
    return res


def execute(case):
    if case.get('writer') is not None:
        return execute_writer(case)
    res = Result()
    spec = case['spec']
    w = build(spec)
    raw_ts = case['raw_ts']
    from .c04 import _sig
    res.sig = [_sig(spec)]
    last = w.segs[-1]
    if last.layout == 'daqmx':
        res.probe('daqmx-world')
    if last.unknown:
        res.probe('marker:' + last.layout)
    cuts = case['cuts'] if case['cuts'] is not None else list(range(4, len(w.data) + 1))
    with store(record=False) as st:
        for c in cuts:
            kind = classify_cut(w, c)
            res.probe('cut:' + kind)
            if w.cut_inside_raw(c) and any(ch.count for ch in w.chans.values()):
                res.nontrivial = True
            win_rng = random.Random(case['win_seed'] * 100003 + c)
            vs = check_cut(w, c, raw_ts, st, res, win_rng, real=False)
            if (case['cuts'] is None or case.get('sampled')) and c % 16 == 5:
                vs += check_cut(w, c, raw_ts, st, res, win_rng, real=True)
                res.probe('realfs-cut')
            elif (c * 2654435761 + case['win_seed']) % 7 == 3 and getattr(w, 'index', None):
                vs += check_cut(w, c, raw_ts, st, res, win_rng, backend='simpath' if c % 2 else 'realpath', index_beside=True)
                st.remove('w.tdms_index')
                res.probe('cut-with-index-beside')
            elif (c * 2654435761 + case['win_seed']) % 7 == 0:
                # the same cut file handed over as another kind of object: BytesIO, a buffered and an unbuffered real file, an object whose seek() returns nothing
                bk = ('bytesio', 'realfile', 'rawfile', 'oldproto')[(c + case['win_seed']) % 4]
                vs += check_cut(w, c, raw_ts, st, res, win_rng, backend=bk)
                st.close_real()
                res.probe('cut-via:' + bk)
            st.fs.faults_fired['crash'] = st.fs.faults_fired.get('crash', 0) + 1
            res.sub_evals += 1
            res.steps += 1
            for v in vs:
                v.sig['kind'] = kind
            res.violations += vs
            res.ev(c, [v.tag for v in vs])
            if len(res.violations) > 3:
                break
        for k, v_ in st.fs.faults_fired.items():
            res.fault(k, v_)
    return res


def shrink_candidates(case):
    from ..shrink import spec_candidates, list_candidates
    if case.get('writer') is not None:
        if case['cuts'] is None:
            return
        for cand in list_candidates(case['cuts'], keep_min=1):
            c = dict(case)
            c['cuts'] = cand
            yield c
        return
    if case['cuts'] is None:
        # first find a single failing cut
        w = build(case['spec'])
        allc = list(range(4, len(w.data) + 1))
        for cand in list_candidates(allc):
            c = dict(case)
            c['cuts'] = cand
            yield c
        return
    for cand in list_candidates(case['cuts'], keep_min=1):
        c = dict(case)
        c['cuts'] = cand
        c['sampled'] = False
        yield c
    # spec reductions move byte offsets: retry all cuts of the smaller spec
    for sp in spec_candidates(case['spec']):
        c = dict(case)
        c['spec'] = sp
        c['cuts'] = None
        yield c


def sample(case):
    if case.get('writer') is not None:
        from .c08 import prog_sig
        return {'writer_program': prog_sig(case['writer']), 'cuts': 'every offset 4..len', 'raw_timestamps': case['raw_ts']}
    w = build(case['spec'])
    from .c04 import _sig
    return {'segments': _sig(case['spec']), 'file_bytes': len(w.data),
            'cuts': ('every offset 4..%d' % len(w.data)) if case['cuts'] is None else '%d offsets (every lead-in / metadata offset, chunk '
            'boundaries +-1, seeded sample of the other raw-data offsets)' % len(case['cuts']),
            'raw_timestamps': case['raw_ts']}
