"""C07 - what TdmsWriter writes is what TdmsFile reads.

Producer = the real TdmsWriter driven by a seeded program; the scheduler inserts session ends and
append sessions; after every session end a consumer reads the file so far and compares it with
the concatenation / last-write-wins model of the calls the writer accepted."""
import struct

import numpy as np

from .. import lib, wgen, wexec, parser, fmt, compare, ops
from ..backends import store
from ..compare import V
from ..core import Result, digest
from ..parser import Structural
from .c08 import prog_sig, shrink_candidates as c08_shrink

PROP = 'C07'
LEVEL = 'exploration'
N = {'quick': 40000, 'thorough': 2000000}
RULE = ('seeded TdmsWriter programs (as C08) with session splits; after every session end the file is read with '
        'TdmsFile.read (converted and raw timestamps) and compared with the model of accepted calls: per channel '
        'the concatenation with the same dtype and bytes, per object the last value per property with the TDMS '
        'type the value mapping prescribes (on-disk type taken from the independent parser), names unchanged. '
        'distinct = (object kinds/forms per call, sessions, sink); non-trivial = a channel with >= 1 value and a '
        'property were compared')
EXPECTED_PROBES = ['twin-writers-interleaved', 'append-session', 'int-boundary-property', 'timestamp-data', 'string-data', 'complex-data',
                   'list-int-data', 'repeated-channel', 'multibyte-text']
UNIX_EPOCH_US = np.datetime64('1970-01-01T00:00:00', 'us')


def generate(rng, tier):
    prog = wgen.gen_program(rng)
    sink = rng.choice(['simpath', 'simstream', 'bytesio', 'realpath', 'minimal'])
    case = {'program': prog, 'sink': sink, 'index': rng.random() < 0.3,
            'fname': rng.choice(['out.tdms'] * 4 + ['OUT.TDMS', 'capture', 'out.tdms.part', 'my data.tdms', 'run.1.dat'])}
    if rng.random() < 0.15:
        # a second writer alive at the same time on another file; a seeded schedule alternates their calls
        case['twin'] = wgen.gen_program(rng, max_calls=5)
        if rng.random() < 0.5:
            # ... writing the same objects: what one writer has declared or written must not matter to the other
            case['twin'] = retarget(rng, case['twin'], prog)
        case['twin_sink'] = rng.choice(['simpath', 'simstream', 'bytesio'])
        case['twin_schedule'] = [rng.random() < 0.5 for _ in range(40)]
    return case


def retarget(rng, twin, prog):
    """Renames the twin program's groups and channels to names used by the main program (where there are enough)."""
    names = []
    for sess in prog['sessions']:
        for call in sess:
            for o in call:
                if o['kind'] == 'channel' and (o['group'], o['channel']) not in names:
                    names.append((o['group'], o['channel']))
    if not names:
        return twin
    import copy
    twin = copy.deepcopy(twin)
    gmap, cmap = {}, {}
    for sess in twin['sessions']:
        for call in sess:
            for o in call:
                if o['kind'] == 'channel':
                    k = (o['group'], o['channel'])
                    if k not in cmap:
                        free = [n for n in names if n not in cmap.values() and gmap.get(o['group'], n[0]) == n[0]]
                        if not free:
                            return twin if not cmap else _apply(twin, gmap, cmap)
                        cmap[k] = rng.choice(free)
                        gmap[o['group']] = cmap[k][0]
    return _apply(twin, gmap, cmap)


def _apply(twin, gmap, cmap):
    # only a consistent renaming is applied: every channel mapped, every group mapped injectively
    if len(set(gmap.values())) != len(gmap):
        return twin
    for sess in twin['sessions']:
        for call in sess:
            for o in call:
                if o['kind'] == 'channel':
                    if (o['group'], o['channel']) not in cmap:
                        return twin
    groups_unmapped = set()
    for sess in twin['sessions']:
        for call in sess:
            for o in call:
                if o['kind'] == 'group' and o['group'] not in gmap:
                    groups_unmapped.add(o['group'])
    taken = set(gmap.values())
    for g in groups_unmapped:
        if g in taken:
            return twin
    for sess in twin['sessions']:
        for call in sess:
            for o in call:
                if o['kind'] == 'channel':
                    o['group'], o['channel'] = cmap[(o['group'], o['channel'])]
                elif o['kind'] == 'group' and o['group'] in gmap:
                    o['group'] = gmap[o['group']]
    return twin


def us_of(dt64):
    return int((np.datetime64(dt64, 'us') - UNIX_EPOCH_US).astype('i8'))


def ts_violation(tag, what, got_us, exp_us):
    delta = got_us - exp_us
    sub = exp_us % 10**6
    return V(tag, '%s: read %d us, written %d us (delta %d, sub-second part %d)' % (what, got_us, exp_us, delta, sub),
             delta_us=delta, float_truncation=wgen.float_truncation_affected(sub))


def compare_read(tr, data, res, when):
    out = []
    model = tr.model
    import io
    try:
        tf = lib.TdmsFile.read(io.BytesIO(data))
        tfr = lib.TdmsFile.read(io.BytesIO(data), raw_timestamps=True)
    except Exception as exc:
        return [V('C07.read-raises', '%s: %s: %s' % (when, type(exc).__name__, exc), exc=type(exc).__name__)]
    # on-disk property types from the independent parser
    disk_types = {}
    try:
        for seg in parser.parse_file(data):
            for o in seg['objects']:
                for (name, t, _v) in o['props']:
                    disk_types[(o['path'], name)] = t
    except Structural:
        disk_types = None
        res.skipped_ops += 1
    # objects and names
    groups = {}
    for g in tf.groups():
        groups[g.name] = g
    exp_groups = [n[0] for p, n in model.names.items() if len(n) == 1]
    if sorted(groups) != sorted(exp_groups):
        out.append(V('C07.groups', '%s: groups %r, written %r' % (when, sorted(groups), sorted(exp_groups))))
        return out
    for path, comps in model.names.items():
        if len(comps) == 0:
            libprops, libprops_raw = tf.properties, tfr.properties
        elif len(comps) == 1:
            libprops, libprops_raw = tf[comps[0]].properties, tfr[comps[0]].properties
            if tf[comps[0]].path != path or tf[comps[0]].name != comps[0]:
                out.append(V('C07.names', 'group %r read back as %r / %r' % (path, tf[comps[0]].path, tf[comps[0]].name)))
        else:
            try:
                c = tf[comps[0]][comps[1]]
                cr = tfr[comps[0]][comps[1]]
            except KeyError:
                out.append(V('C07.channel-missing', '%s: %s' % (when, path)))
                continue
            if c.path != path or c.name != comps[1] or c.group_name != comps[0]:
                out.append(V('C07.names', 'channel %r read back as %r' % (path, c.path)))
            libprops, libprops_raw = c.properties, cr.properties
            out += compare_data(path, model.chans[path], c, cr, res)
        # properties: last value written, with the prescribed TDMS type
        mp = model.props[path]
        if set(libprops.keys()) != set(mp.keys()):
            out.append(V('C07.property-set', '%s: %s has properties %r, written %r' % (when, path, sorted(libprops), sorted(mp))))
            continue
        for name, pv in mp.items():
            t, v = wgen.expected_prop(pv)
            res.compared += 1
            if pv[0] == 'int' and any(abs(pv[1] - b) <= 2 or abs(pv[1] + b) <= 2 for b in (2**31, 2**63)):
                res.probe('int-boundary-property')
            if pv[0] in ('str',) and any(ord(ch) > 127 for ch in pv[1]):
                res.probe('multibyte-text')
            disk_t = 'ts' if t in ('ts', 'ts-us') else t
            if disk_types is not None and disk_types.get((path, name)) != disk_t:
                out.append(V('C07.property-type', '%s.%s = %r written as TDMS type %s, expected %s' % (
                    path, name, pv[:2], disk_types.get((path, name)), disk_t), kind=pv[0], expected=disk_t))
                continue
            val = libprops[name]
            if t == 'ts-us':
                if not isinstance(val, np.datetime64):
                    out.append(V('C07.property-value', '%s.%s: %r is not a datetime64' % (path, name, val), kind=pv[0]))
                elif us_of(val) != v:
                    out.append(ts_violation('C07.timestamp-property', '%s.%s' % (path, name), us_of(val), v))
            elif t == 'ts':
                rv = libprops_raw[name]
                if not (hasattr(rv, 'second_fractions') and int(rv.seconds) == v[0] and int(rv.second_fractions) == v[1]):
                    out.append(V('C07.property-value', '%s.%s: raw timestamp %r, written %r' % (path, name, rv, v), kind=pv[0]))
            else:
                m = compare.prop_mismatch(val, t, v, False)
                if m:
                    out.append(V('C07.property-value', '%s.%s (%s): %s' % (path, name, pv[0], m), kind=pv[0]))
    return out


def compare_data(path, mc, c, cr, res):
    out = []
    cat, dt, vals = mc
    res.compared += 1
    try:
        arr = c[:]
    except Exception as exc:
        return [V('C07.read-raises', '%s[:]: %s: %s' % (path, type(exc).__name__, exc), exc=type(exc).__name__)]
    if cat == 'nd':
        exp_dt = np.dtype(dt)
        n = len(vals) // exp_dt.itemsize
        if n:
            res.nontrivial = True
        if exp_dt.kind == 'c':
            res.probe('complex-data')
        if arr.dtype.kind != exp_dt.kind or arr.dtype.itemsize != exp_dt.itemsize:
            out.append(V('C07.dtype', '%s: read dtype %s, written %s' % (path, arr.dtype, exp_dt), written=str(exp_dt)))
        elif compare.le_bytes(arr) != bytes(vals):
            out.append(V('C07.data', '%s (%s): values differ (%d read, %d written)' % (path, exp_dt, len(arr), n), cat=cat))
    elif cat == 'ints':
        res.probe('list-int-data')
        got = [int(x) for x in arr]
        if got != vals:
            out.append(V('C07.data', '%s: list of ints read back as %r..., written %r...' % (path, got[:5], vals[:5]), cat=cat))
    elif cat == 'strs':
        res.probe('string-data')
        if any(ord(ch) > 127 for s in vals for ch in s):
            res.probe('multibyte-text')
        if list(arr) != vals or (len(vals) and arr.dtype.kind != 'O'):
            out.append(V('C07.data', '%s: strings read back as %r..., written %r...' % (path, list(arr)[:3], vals[:3]), cat=cat))
        if vals:
            res.nontrivial = True
    elif cat == 'us':
        res.probe('timestamp-data')
        if len(vals) and arr.dtype != np.dtype('<M8[us]'):
            out.append(V('C07.dtype', '%s: read dtype %s, written datetime64' % (path, arr.dtype), written='datetime64'))
        elif len(arr) != len(vals):
            out.append(V('C07.data', '%s: %d timestamps read, %d written' % (path, len(arr), len(vals)), cat=cat))
        else:
            got = (np.asarray(arr).astype('<M8[us]') - UNIX_EPOCH_US).astype('i8') if len(vals) else []
            bad = 0
            for i, (g, e) in enumerate(zip(got, vals)):
                if int(g) != e and bad < 60:
                    # one violation per value, so that a recorded finding masks only the values it explains
                    out.append(ts_violation('C07.timestamp-data', '%s[%d]' % (path, i), int(g), e))
                    bad += 1
    elif cat == 'rawts':
        try:
            raw = cr[:]
            if compare.raw_ts_bytes(raw) != bytes(vals) if len(vals) else len(raw) != 0:
                out.append(V('C07.data', '%s: raw timestamps differ' % path, cat=cat))
        except Exception as exc:
            out.append(V('C07.read-raises', '%s raw[:]: %s: %s' % (path, type(exc).__name__, exc), exc=type(exc).__name__))
    return out


def execute(case):
    res = Result()
    prog = case['program']
    res.sig = [prog_sig(prog), case['sink'], prog['version']]
    res.backend = case['sink']
    if len(prog['sessions']) > 1:
        res.probe('append-session')
    seen = {}
    for sess in prog['sessions']:
        for call in sess:
            for o in call:
                if o['kind'] == 'channel':
                    k = (o['group'], o['channel'])
                    seen[k] = seen.get(k, 0) + 1
    if any(v > 1 for v in seen.values()):
        res.probe('repeated-channel')
    with store(record=False) as st:
        state = {'stop': False}

        def after(tr, k):
            if state['stop'] or not any(r['accepted'] for r in tr.calls):
                return
            vs = compare_read(tr, tr.data, res, 'after session %d' % (k + 1))
            res.steps += 1
            res.ev('session', k, digest(tr.data), [v.tag for v in vs])
            if vs:
                res.violations.extend(vs)
                if len(res.violations) > 150:
                    state['stop'] = True
        twin = case.get('twin')
        try:
            if twin is None:
                tr = wexec.run_program(st, prog, case['sink'], case['index'], name=case.get('fname', 'out.tdms'), after_session=after)
                traces = [tr]
            else:
                # two writers as cooperative tasks: the schedule decides whose next write_segment call (or session end) runs
                res.probe('twin-writers')
                tr, tr2 = wexec.Trace(), wexec.Trace()

                def after2(t, k):
                    if state['stop'] or not any(r['accepted'] for r in t.calls):
                        return
                    vs = compare_read(t, t.data, res, 'second writer, after session %d' % (k + 1))
                    res.ev('twin-session', k, digest(t.data), [v.tag for v in vs])
                    for v in vs:
                        v.sig['twin'] = True
                    res.violations.extend(vs)
                tasks = [wexec.steps_program(st, prog, case['sink'], case['index'], tr, name=case.get('fname', 'out.tdms'), after_session=after),
                         wexec.steps_program(st, twin, case['twin_sink'], False, tr2, name='twin.tdms', after_session=after2)]
                live = [0, 1]
                sched = list(case['twin_schedule'])
                step = 0
                switches = 0
                last = None
                while live:
                    pick = live[(1 if sched[step % len(sched)] else 0) % len(live)] if sched else live[0]
                    step += 1
                    try:
                        next(tasks[pick])
                    except StopIteration:
                        live.remove(pick)
                    if last is not None and pick != last:
                        switches += 1
                    last = pick
                    res.steps += 1
                if switches >= 2:
                    res.probe('twin-writers-interleaved')
                traces = [tr, tr2]
        except Exception as exc:
            res.violations.append(V('C07.writer-raises', 'outside write_segment: %s: %s' % (type(exc).__name__, exc),
                                    exc=type(exc).__name__))
            return res
        for tr in traces:
            check_accepts(tr, res)
    return res


def check_accepts(tr, res):
    for i, rec in enumerate(tr.calls):
        if not rec['accepted'] and rec.get('must_accept'):
            res.violations.append(V('C07.rejects-supported-input', 'call %d uses only supported objects and values but '
                                    'write_segment raised %s' % (i, rec['exc']), exc=rec['exc'].split(':')[0]))


def shrink_candidates(case):
    if case.get('twin') is not None:
        c = {k: v for k, v in case.items() if not k.startswith('twin')}
        yield c
        # the violation may be in the second writer's file: swap roles, then drop
        c = dict(case)
        c['program'], c['twin'] = case['twin'], case['program']
        c['sink'], c['twin_sink'] = case['twin_sink'], case['sink']
        c['index'] = False
        c2 = {k: v for k, v in c.items() if not k.startswith('twin')}
        yield c2
        # shrink the twin program with the same candidates
        sub = {'program': case['twin'], 'sink': case['twin_sink'], 'index': False}
        for cand in c08_shrink(sub):
            c = dict(case)
            c['twin'] = cand['program']
            yield c
        for alt in ([False] * 40, [True] * 40, [False, True] * 20):
            if case['twin_schedule'] != alt:
                c = dict(case)
                c['twin_schedule'] = alt
                yield c
    for c in c08_shrink(case):
        yield c


def sample(case):
    out = {'program': prog_sig(case['program']), 'sink': case['sink'], 'index': case['index']}
    if case.get('twin') is not None:
        out['second_writer'] = {'program': prog_sig(case['twin']), 'sink': case['twin_sink'],
                                'schedule': ''.join('B' if b else 'A' for b in case['twin_schedule'][:16])}
    return out
