"""C02 - segment metadata inheritance never changes what is read.

A history property: the producer stub appends segments one at a time; after every append a
tailing reader opens the file so far (eagerly and lazily) and a second reader opens the fully
explicit re-encoding of the same logical prefix.  Forbidden encodings are separate worlds."""
import copy

from .. import gen, lib, ops, fmt, compare
from ..backends import store
from ..compare import V
from ..core import Result, digest
from ..world import build, SpecError
from . import _lazy
from .c01 import shape_sig, compare_channels

PROP = 'C02'
LEVEL = 'exploration'
N = {'quick': 9000, 'thorough': 1500000}
BUDGET = {'quick': 45, 'thorough': 900}
RULE = ('seeded segment histories (2-12 segments, 1-4 channels) whose per-object header encodings are drawn from '
        '{full, matches-previous, no-data, unlisted} with kTocNewObjList / kTocMetaData on or off, re-ordered '
        're-listings, has-data flipping and property updates; after EVERY appended segment the prefix is read '
        'eagerly and lazily and compared with the model and with the read of the explicit re-encoding, plus '
        'monotonicity (what was read for k segments is a prefix of what is read for k+1). 15% of worlds inject '
        'one forbidden encoding and require an error. distinct = sequence of (flags, header choices); non-trivial '
        '= some object used an inherited encoding (matches-previous, no-data, unlisted carry-over or no metadata)')
EXPECTED_PROBES = ['forbidden:after-a-file-defining-the-same-paths', 't:same-after-none', 't:same-after-absent', 't:meta-less-after-flip', 'reordered-same-set',
                   'forbidden:same-unseen', 'forbidden:first-no-meta', 'forbidden:type-change', 't:unlisted-carry', 'long-history', 'long-metadata-less-run']


def opts(tier):
    o = gen.Opts()
    o.max_segments = 12
    o.many_segments_p = 0.008        # 100+ segments: anything keyed or batched by a block size
    o.long_run_p = 0.008             # 100+ consecutive metadata-less segments
    o.very_long_run_p = 0.002        # 1000+ of them
    o.max_channels = 4
    o.p_no_meta = 0.25
    o.p_keep_list = 0.6
    o.p_same = 0.45
    o.p_none = 0.2
    o.max_count = 5
    o.max_chunks = 4
    o.big_count_p = 0.0
    o.pad_p = 0.02
    o.nasty_names = 0.05
    o.short_last_p = 0.03
    o.declared_huge_p = 0.01
    o.equal_shapes_p = 0.15
    return gen.deepen(o, tier)


def inject_forbidden(rng, spec):
    """Returns (kind, spec') or None."""
    spec = copy.deepcopy(spec)
    kind = rng.choice(['same-unseen', 'first-no-meta', 'type-change'])
    segs = spec['segments']
    if kind == 'first-no-meta':
        segs[0]['meta'] = False
        segs[0]['listed'] = []
        segs[0]['chunks'] = 0
        segs[0]['data'] = {}
        # later segments may reference data of segment 0's listing; keep only the first segment and
        # an ordinary follower so that the rest of the file is well-formed
        spec['segments'] = segs[:1]
        return kind, spec
    if kind == 'same-unseen':
        k = rng.randrange(len(segs))
        if not segs[k].get('meta', True):
            return None
        g = rng.choice([n[0] for n in spec['names'].values() if n] or ['g'])
        name = 'never_seen'
        path = fmt.quote_path(g, name)
        if path in spec['names']:
            return None
        spec['names'][path] = [g, name]
        if fmt.quote_path(g) not in spec['names']:
            spec['names'][fmt.quote_path(g)] = [g]
        pos = rng.randint(0, len(segs[k]['listed']))
        segs[k]['listed'].insert(pos, {'path': path, 'index': 'same', 'props': []})
        spec['segments'] = segs[:k + 1]
        return kind, spec
    # type change: restate a channel that already has a type with another (sized) one
    w = build(spec)
    cands = []
    for k, s in enumerate(w.segs):
        if k == 0 or not segs[k].get('meta', True):
            continue
        for (p, h, idx) in w.segs[k - 1].active:
            if idx is not None and idx['type'] != 'daqmx':
                cands.append((k, p, idx['type']))
    if not cands:
        return None
    k, p, t = rng.choice(cands)
    nt = rng.choice([x for x in fmt.SIZED if x != t and not (set((x, t)) <= {'f32', 'f32u'}) and not (
        set((x, t)) <= {'f64', 'f64u'})])
    seg = segs[k]
    seg['listed'] = [L for L in seg['listed'] if L['path'] != p]
    cnt = rng.randint(0, 3)
    seg['listed'].append({'path': p, 'index': 'full', 'type': nt, 'count': cnt, 'props': []})
    seg['layout'] = 'contiguous'
    seg['new_obj_list'] = True
    seg['listed'] = [L for L in seg['listed'] if L['index'] != 'same' or L['path'] == p]
    seg['chunks'] = 1 if cnt else 0
    seg['data'] = {}
    keep = []
    for L in seg['listed']:
        if L['index'] == 'full' and L['path'] != p:
            L['index'] = 'none'
        keep.append(L)
    seg['listed'] = keep
    seg['data'][p] = [gen.gen_values(rng, nt, cnt)] if cnt else []
    spec['segments'] = segs[:k + 1]
    return kind, spec


def prelude_world(spec):
    """A small well-formed file that gives every channel path of `spec` a full index (i32, 2 values) and data."""
    names = dict(spec['names'])
    listed = [{'path': '/', 'index': 'none', 'props': []}]
    data = {}
    for p, comps in names.items():
        if len(comps) == 1:
            listed.append({'path': p, 'index': 'none', 'props': []})
    for p, comps in names.items():
        if len(comps) == 2:
            listed.append({'path': p, 'index': 'full', 'type': 'i32', 'count': 2, 'props': []})
            data[p] = [b'\x01\x00\x00\x00\x02\x00\x00\x00']
    seg = {'endian': '<', 'layout': 'contiguous', 'pad': 0, 'meta': True, 'new_obj_list': True, 'listed': listed,
           'chunks': 1 if data else 0, 'data': data}
    return build({'version': 4713, 'names': names, 'segments': [seg]})


def generate(rng, tier):
    o = opts(tier)
    for _ in range(20):
        spec, w, _ = gen.gen_world(rng, o)
        if len(spec['segments']) >= 2:
            break
    # the lazy reader's first request is for the end of a channel (the latest values of a log), not for all of it
    case = {'spec': spec, 'raw_ts': rng.random() < 0.5, 'forbidden': None,
            'tail_first': rng.random() < (0.3 if len(spec['segments']) < 600 else 0.7)}
    if rng.random() < 0.15:
        for _ in range(5):
            r = inject_forbidden(rng, spec)
            if r is None:
                continue
            kind, sp = r
            try:
                wf = build(sp, allow_forbidden=True)
            except SpecError:
                continue
            if wf.forbidden:
                case['spec'] = sp
                case['forbidden'] = kind
                # "never defined" means never defined in THIS file: in half of the cases another, well-formed file that
                # defines the same path (with an index of its own) is read first in the same process
                case['prelude'] = rng.random() < 0.5
                break
    return case



# ------------------------------------------------------------------------------ bounded sweep (thorough tier)
# All header-encoding choice sequences for histories of <= 3 segments over 2 channels (a: int32 x 2 values,
# b: float64 x 1 value): per segment {no metadata | metadata x kTocNewObjList x per-channel listing in
# {unlisted, full, matches-previous, no-data}} x chunk count in {0, 1, 2}.  This part is bounded enumeration
# (stated as such in the evidence); sequences the format forbids or that are ill-formed are skipped.
SWEEP_LISTINGS = ['unlisted', 'full', 'same', 'none']
SWEEP_SEG = [('nometa', None, None, None, c) for c in (0, 1, 2)] + [
    ('meta', nl, la, lb, c) for nl in (True, False) for la in SWEEP_LISTINGS for lb in SWEEP_LISTINGS for c in (0, 1, 2)]
SWEEP_BASE = len(SWEEP_SEG)
SWEEP_TOTAL = SWEEP_BASE + SWEEP_BASE ** 2 + SWEEP_BASE ** 3
SWEEP_NAMES = {'/': [], "/'g'": ['g'], "/'g'/'a'": ['g', 'a'], "/'g'/'b'": ['g', 'b']}


def sweep_spec(index):
    """The spec for sweep index (mixed radix over 1-, 2- and 3-segment histories), or None if ill-formed."""
    import struct as _st
    if index < SWEEP_BASE:
        digits = [index]
    elif index < SWEEP_BASE + SWEEP_BASE ** 2:
        i = index - SWEEP_BASE
        digits = [i // SWEEP_BASE, i % SWEEP_BASE]
    else:
        i = index - SWEEP_BASE - SWEEP_BASE ** 2
        digits = [i // SWEEP_BASE ** 2, (i // SWEEP_BASE) % SWEEP_BASE, i % SWEEP_BASE]
    spec = {'version': 4713, 'names': dict(SWEEP_NAMES), 'segments': []}
    counter = [0]
    active = {}          # path -> has data (after this segment)
    stated = set()
    for k, d in enumerate(digits):
        kind, nl, la, lb, chunks = SWEEP_SEG[d]
        seg = {'endian': '<', 'layout': 'contiguous', 'chunks': chunks, 'data': {}}
        if kind == 'nometa':
            if k == 0:
                return None
            seg['meta'] = False
            seg['new_obj_list'] = False
        else:
            seg['meta'] = True
            seg['new_obj_list'] = nl
            if nl or k == 0:
                active = {}
            listed = []
            if k == 0:
                listed.append({'path': '/', 'index': 'none', 'props': []})
                listed.append({'path': "/'g'", 'index': 'none', 'props': []})
            for path, choice, t, cnt in (("/'g'/'a'", la, 'i32', 2), ("/'g'/'b'", lb, 'f64', 1)):
                if choice == 'unlisted':
                    continue
                L = {'path': path, 'index': choice, 'props': [['p', 'i32', k]]}
                if choice == 'full':
                    L.update(type=t, count=cnt)
                    stated.add(path)
                    active[path] = True
                elif choice == 'same':
                    if path not in stated:
                        return None
                    active[path] = True
                else:
                    active[path] = False
                listed.append(L)
            seg['listed'] = listed
        has = [p for p in ("/'g'/'a'", "/'g'/'b'") if active.get(p)]
        if not has and chunks:
            return None
        # data objects in active-list order are decided by the model; provide data for every active data object
        for path in has:
            vals = []
            for _c in range(chunks):
                if path.endswith("'a'"):
                    vals.append(_st.pack('<2l', counter[0] + 1, counter[0] + 2))
                    counter[0] += 2
                else:
                    counter[0] += 1
                    vals.append(_st.pack('<d', counter[0] + 0.5))
            seg['data'][path] = vals
        spec['segments'].append(seg)
    return spec


def generate_indexed(run, rng, tier):
    if tier == 'thorough' and run < SWEEP_TOTAL and not __import__('os').environ.get('VERIF_C02_NO_SWEEP'):
        spec = sweep_spec(run)
        ok = spec is not None
        if ok:
            try:
                build(spec)
            except SpecError:
                ok = False
        if not ok:
            return {'skip': True, 'spec': {'version': 4713, 'names': {'/': []}, 'segments': []}, 'raw_ts': False, 'forbidden': None}
        return {'spec': spec, 'raw_ts': False, 'forbidden': None, 'sweep': run}
    return generate(rng, tier)


def transitions(res, spec):
    """Reach probes over (previous state x header choice)."""
    state = {}       # path -> 'data' | 'nodata' | 'absent'
    seen_lists = []
    flipped = False
    for k, s in enumerate(spec['segments']):
        if not s.get('meta', True):
            res.probe('t:no-metadata')
            if flipped:
                res.probe('t:meta-less-after-flip')
            continue
        listed = {L['path']: L for L in s.get('listed', [])}
        new_list = s.get('new_obj_list', True) or k == 0
        flipped = False
        order = [L['path'] for L in s.get('listed', [])]
        if new_list:
            for prev in seen_lists:
                if sorted(prev) == sorted(order) and prev != order and len(order) > 1:
                    res.probe('reordered-same-set')
            seen_lists.append(order)
        for p, L in listed.items():
            prev = state.get(p, 'new')
            res.probe('t:%s-after-%s' % (L['index'], {'data': 'data', 'nodata': 'none', 'absent': 'absent', 'new': 'new'}[prev]))
            if L['index'] in ('same', 'none') and prev in ('data', 'nodata') and (L['index'] == 'same') != (prev == 'data'):
                flipped = True
        for p in list(state):
            if p not in listed:
                if new_list:
                    state[p] = 'absent'
                elif state[p] in ('data', 'nodata'):
                    res.probe('t:unlisted-carry')
        for p, L in listed.items():
            state[p] = 'nodata' if L['index'] == 'none' else 'data'


def inherited(spec):
    for k, s in enumerate(spec['segments']):
        if not s.get('meta', True):
            return True
        if k and not s.get('new_obj_list', True):
            return True
        if any(L['index'] != 'full' and len(spec['names'][L['path']]) == 2 for L in s.get('listed', [])):
            return True
    return False


def read_all(st, name, w, raw_ts, lazy, tail_first=False):
    src = st.source('simstream', name)
    tf = lib.TdmsFile.open(src, raw_timestamps=raw_ts) if lazy else lib.TdmsFile.read(src, raw_timestamps=raw_ts)
    try:
        out = {'groups': [g.name for g in tf.groups()],
               'channels': [c.path for g in tf.groups() for c in g.channels()], 'data': {}, 'len': {}}
        out['win'] = {}
        for g in tf.groups():
            for c in g.channels():
                n = len(c)
                out['len'][c.path] = n
                if not tail_first:
                    out['data'][c.path] = ops.norm(c[:])
                # a few windows and indices: lazily they go through the per-channel offset index
                wins = []
                fns = [lambda: c.read_data(n // 2, 3), lambda: c[n // 3:], lambda: c[n - 1] if n else None,
                       lambda: c.read_data(max(0, n - 2), None)]
                for fn in (fns[::-1] if tail_first else fns):
                    r, exc, _eo = ops.try_op(lambda: ops.norm(fn()))
                    wins.append(r if exc is None else ('exc', exc))
                out['win'][c.path] = wins[::-1] if tail_first else wins
                if tail_first:
                    out['data'][c.path] = ops.norm(c[:])
        return tf, out
    finally:
        if lazy:
            tf.close()


def execute(case):
    res = Result()
    spec = case['spec']
    raw_ts = case['raw_ts']
    if case.get('skip'):
        res.sig = ['sweep-skip']
        res.probe('sweep:ill-formed-or-forbidden-skipped')
        return res
    if 'sweep' in case:
        res.probe('sweep:histories-run')
    res.sig = [shape_sig(spec), case['forbidden']]
    with store(record=False) as st:
        if case['forbidden']:
            w = build(spec, allow_forbidden=True)
            res.probe('forbidden:' + case['forbidden'])
            st.put('f.tdms', w.data)
            if case.get('prelude'):
                res.probe('forbidden:after-a-file-defining-the-same-paths')
                pre = prelude_world(spec)
                st.put('p.tdms', pre.data)
                ptf = lib.TdmsFile.read(st.source('simstream', 'p.tdms'))
                for g in ptf.groups():
                    for c in g.channels():
                        c[:]
                popen = lib.TdmsFile.open(st.source('simstream', 'p.tdms'))      # stays open while the forbidden file is read
            for lazy in (False, True):
                try:
                    src = st.source('simstream', 'f.tdms')
                    tf = lib.TdmsFile.open(src, raw_timestamps=raw_ts) if lazy else lib.TdmsFile.read(src, raw_timestamps=raw_ts)
                    if lazy:
                        tf.close()
                    res.violations.append(V('C02.forbidden-accepted', '%s (%s) was read %s without an error' % (
                        case['forbidden'], w.forbidden, 'lazily' if lazy else 'eagerly'), kind=case['forbidden']))
                except Exception as exc:
                    res.ev('rejected', lazy, type(exc).__name__)
                res.compared += 1
            if case.get('prelude'):
                popen.close()
            res.nontrivial = True
            res.fault('forbidden-encoding')
            return res
        transitions(res, spec)
        res.nontrivial = inherited(spec)
        prev = None
        nseg = len(spec['segments'])
        ks = list(range(1, nseg + 1))
        if nseg > 15:
            res.probe('long-history')
            run = 0
            for sg in spec['segments']:
                run = run + 1 if not sg.get('meta', True) else 0
                if run >= 99:
                    res.probe('long-metadata-less-run')
                if run >= 999:
                    res.probe('very-long-metadata-less-run')
                    break
            ks = sorted(set([1, 2, 3, nseg // 2, nseg - 1, nseg] + list(range(17, nseg, 29))))     # a tailing reader that polls rarely
            if nseg > 600:
                ks = [nseg // 2, nseg]
        for k in ks:
            pre = dict(spec)
            pre['segments'] = spec['segments'][:k]
            w = build(pre)
            wx = build(pre, explicit=True)
            st.put('inh.tdms', w.data)
            st.put('exp.tdms', wx.data)
            res.steps += 1
            reads = {}
            for lazy in (False, True):
                for name in ('inh.tdms', 'exp.tdms'):
                    try:
                        tf, out = read_all(st, name, w, raw_ts, lazy, case.get('tail_first', False))
                    except Exception as exc:
                        if name == 'inh.tdms':
                            res.violations.append(V('C02.read-raises', 'after %d segment(s), %s read of the inherited encoding: '
                                                    '%s: %s' % (k, 'lazy' if lazy else 'eager', type(exc).__name__, exc),
                                                    exc=type(exc).__name__))
                        else:
                            res.ev('explicit-raises', k, type(exc).__name__)
                            res.skipped_ops += 1
                        continue
                    reads[(lazy, name)] = out
                    if name == 'inh.tdms':
                        vs = compare.check_structure(tf, w, raw_ts, tagp='C02') if not lazy else []
                        if not lazy:
                            vs += compare_channels(tf, w, raw_ts, res, tagp='C02')
                        for v in vs:
                            v.detail = 'after %d segment(s): %s' % (k, v.detail)
                        res.violations += vs
            for lazy in (False, True):
                a = reads.get((lazy, 'inh.tdms'))
                if a is not None:
                    for p_, wins in a['win'].items():
                        d = a['data'].get(p_)
                        if d is None or d[0] not in ('arr', 'strs', 'rawts'):
                            continue
                        n = _lazy.full_len(d)
                        exp = [_lazy.take_norm(d, range(min(n // 2, n), min(n // 2 + 3, n))), _lazy.take_norm(d, range(n // 3, n)),
                               (_lazy.scalar_of(d, n - 1) if n else ('none',)), _lazy.take_norm(d, range(max(0, n - 2), n))]
                        for wi, (g_, e_) in enumerate(zip(wins, exp)):
                            if g_ != e_ and not (g_[0] in ('arr', 'strs', 'rawts') and _lazy.full_len(g_) == 0 and _lazy.full_len(e_) == 0):
                                res.violations.append(V('C02.window', 'after %d segment(s), %s: window %d of %s reads %s, the full read '
                                                        'gives %s there' % (k, 'lazy' if lazy else 'eager', wi, p_, _lazy._short(g_),
                                                                            _lazy._short(e_)), lazy=lazy))
                                break
            for lazy in (False, True):
                a, b = reads.get((lazy, 'inh.tdms')), reads.get((lazy, 'exp.tdms'))
                if a is not None and b is not None and a != b:
                    diff = [p for p in a['data'] if a['data'].get(p) != b['data'].get(p)] or ['structure']
                    res.violations.append(V('C02.inherited-vs-explicit', 'after %d segment(s), %s: inherited and explicit '
                                            'encodings read differently for %s: %s vs %s' % (
                                                k, 'lazy' if lazy else 'eager', diff[:3],
                                                _lazy._short(a['data'].get(diff[0]) if diff[0] != 'structure' else a['channels']),
                                                _lazy._short(b['data'].get(diff[0]) if diff[0] != 'structure' else b['channels']))))
                res.compared += 1
            e, l_ = reads.get((False, 'inh.tdms')), reads.get((True, 'inh.tdms'))
            if e is not None and l_ is not None and e != l_:
                diff = [p for p in e['data'] if e['data'].get(p) != l_['data'].get(p)
                        and not (_is_empty(e['data'].get(p)) and _is_empty(l_['data'].get(p)))]
                if diff or e['channels'] != l_['channels'] or e['len'] != l_['len']:
                    res.violations.append(V('C02.lazy-vs-eager', 'after %d segment(s): %s' % (k, diff[:3])))
            # monotonicity: the previous prefix is a prefix of this one
            cur = reads.get((False, 'inh.tdms'))
            if prev is not None and cur is not None:
                for p, d in prev['data'].items():
                    nd = cur['data'].get(p)
                    if nd is None:
                        res.violations.append(V('C02.monotonic', 'channel %s disappeared after segment %d' % (p, k)))
                        continue
                    n = _lazy.full_len(d) if d[0] != 'dict' else 0
                    if n and d[0] == nd[0] and _lazy.take_norm(nd, range(min(n, _lazy.full_len(nd)))) != d:
                        res.violations.append(V('C02.monotonic', 'after segment %d channel %s is no longer an extension of '
                                                'what was read before' % (k, p)))
            prev = cur
            res.ev(k, digest(reads.get((False, 'inh.tdms'))), digest(reads.get((True, 'inh.tdms'))))
            if len(res.violations) > 3:
                break
    return res


def _is_empty(x):
    return x is not None and x[0] in ('arr', 'strs', 'rawts') and _lazy.full_len(x) == 0


def shrink_candidates(case):
    from ..shrink import spec_candidates
    if case['forbidden']:
        return
    if case['raw_ts']:
        c = dict(case)
        c['raw_ts'] = False
        yield c
    for sp in spec_candidates(case['spec']):
        c = dict(case)
        c['spec'] = sp
        yield c


def sample(case):
    return {'segments': shape_sig(case['spec']), 'forbidden': case['forbidden'], 'sweep_index': case.get('sweep')}


def evidence_extra(tot):
    done = tot['probes'].get('sweep:histories-run', 0) + tot['probes'].get('sweep:ill-formed-or-forbidden-skipped', 0)
    return {'bounded_sweep': {'what': 'all header-encoding choice sequences for <= 3 segments x 2 channels x chunk counts {0,1,2}',
                              'total_indices': SWEEP_TOTAL, 'indices_visited': done, 'complete': done >= SWEEP_TOTAL,
                              'well_formed_histories_run': tot['probes'].get('sweep:histories-run', 0)}}
