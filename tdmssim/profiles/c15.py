"""C15 - byte order of a segment does not change its meaning.

Metamorphic, fault-free: each world spec is encoded all little-endian, all big-endian and with a
byte order drawn per segment; the three reads must be identical and equal the model."""
import copy
import random

from .. import gen, lib, ops, compare, fmt
from ..backends import store
from ..compare import V
from ..core import Result, digest
from ..world import build
from . import _lazy
from .c01 import shape_sig, compare_channels

PROP = 'C15'
LEVEL = 'exploration'
N = {'quick': 28000, 'thorough': 1500000}
EXPECTED_PROBES = ['daqmx-world']
RULE = ('seeded worlds (all 17 types, strings, raw and converted timestamps, every property type, header '
        'inheritance across byte-order changes, DAQmx scaler records when the generator emits DAQmx worlds) '
        'encoded three times: all little-endian, all big-endian, byte order drawn per segment; eager and lazy '
        'reads of the three encodings are compared with each other and with the model. distinct = segment shape '
        'sequence x per-segment byte-order vector; non-trivial = a multi-byte value was compared')


def opts(tier):
    o = gen.Opts()
    o.max_segments = 5
    o.max_channels = 4
    o.many_segments_p = 0.005
    o.short_last_p = 0.04
    o.declared_huge_p = 0.01
    o.equal_shapes_p = 0.15
    return gen.deepen(o, tier)


def generate(rng, tier):
    o = opts(tier)
    raw_ts = rng.random() < 0.5
    if raw_ts:
        o.ts_range = None
    from .c11 import maybe_daqmx_world
    spec = maybe_daqmx_world(rng, 0.25, wide_digital_p=0.4)
    if spec is not None and not fields_disjoint(spec):
        spec = None
    if spec is None:
        spec, _w, _ = gen.gen_world(rng, o)
    mixed = [rng.choice('<>') for _ in spec['segments']]
    if len(set(mixed)) == 1 and len(mixed) > 1:
        mixed[rng.randrange(len(mixed))] = '>' if mixed[0] == '<' else '<'
    return {'spec': spec, 'raw_ts': raw_ts, 'mixed': mixed}


def daqmx_fields(si):
    """buffer index -> [(byte offset, size)] of the multi-byte scaler fields of a segment's rows"""
    out = {}
    for (p, h, idx) in si.active:
        if h and idx['type'] == 'daqmx':
            dig = idx['daqmx']['kind'] == 'digital'
            for sc in idx['daqmx']['scalers']:
                if dig and fmt.size_of(sc['type']) == 1:
                    continue
                # a line of a wider port: the port value is a field in the segment's byte order like any other scaler
                out.setdefault(sc['buffer'], set()).add((sc['offset'] // 8 if dig else sc['offset'], fmt.size_of(sc['type'])))
    return {b: sorted(v) for b, v in out.items()}


def fields_disjoint(spec):
    w = build(spec)
    for si in w.segs:
        if si.layout != 'daqmx':
            continue
        for b, fields in daqmx_fields(si).items():
            end = 0
            for off, size in fields:
                if off < end:
                    return False
                end = off + size
        # digital lines read single bytes: they must not sit inside a multi-byte field either
        for (p, h, idx) in si.active:
            if h and idx['type'] == 'daqmx' and idx['daqmx']['kind'] == 'digital':
                for sc in idx['daqmx']['scalers']:
                    if fmt.size_of(sc['type']) > 1:
                        continue
                    byte = sc['offset'] // 8
                    for off, size in daqmx_fields(si).get(sc['buffer'], []):
                        if size > 1 and off <= byte < off + size:
                            return False
    return True


def with_endian(spec, es):
    """The same logical content with segment k encoded in byte order es[k]."""
    s2 = dict(spec)
    s2['segments'] = []
    w0 = None
    for k, (seg, e) in enumerate(zip(spec['segments'], es)):
        sg = dict(seg)
        if seg.get('layout') == 'daqmx' and seg.get('endian', '<') != e and seg.get('buffers'):
            # raw buffers are stored as bytes: swap every scaler field so that the values stay the same
            if w0 is None:
                w0 = build(spec)
            si = w0.segs[k]
            from ..world import _daqmx_dims
            dims = _daqmx_dims([(p, h, i) for (p, h, i) in si.active if h])
            fields = daqmx_fields(si)
            newbufs = []
            for bufs in seg['buffers']:
                nb = []
                for b, raw in enumerate(bufs):
                    raw = bytearray(raw)
                    rows, width = dims[b]
                    for r in range(rows):
                        for off, size in fields.get(b, []):
                            a = r * width + off
                            raw[a:a + size] = raw[a:a + size][::-1]
                    nb.append(bytes(raw))
                newbufs.append(nb)
            sg['buffers'] = newbufs
        sg['endian'] = e
        s2['segments'].append(sg)
    return s2


def snapshot(tf, w, lazy):
    out = {'groups': [g.name for g in tf.groups()], 'props': {}, 'data': {}, 'unscaled': {}, 'len': {}}
    out['props']['/'] = sorted((k, repr(ops.norm(v) if not isinstance(v, (int, float, str, bool)) else v))
                               for k, v in tf.properties.items())
    for g in tf.groups():
        out['props'][g.path] = sorted((k, repr(ops.norm(v) if not isinstance(v, (int, float, str, bool)) else v))
                                      for k, v in g.properties.items())
        for c in g.channels():
            out['props'][c.path] = sorted((k, repr(ops.norm(v) if not isinstance(v, (int, float, str, bool)) else v))
                                          for k, v in c.properties.items())
            out['len'][c.path] = len(c)
            try:
                out['data'][c.path] = ops.norm(c[:])
            except Exception as exc:
                out['data'][c.path] = ('exc', type(exc).__name__)
            try:
                out['unscaled'][c.path] = ops.norm(c.read_data(scaled=False))
            except Exception as exc:
                out['unscaled'][c.path] = ('exc', type(exc).__name__)
    if lazy:
        # every channel's chunk stream, advanced round-robin (so that suspended generators sit in segments of different
        # byte order) with a direct read of some other channel between two advances
        chans = [c for g in tf.groups() for c in g.channels()]
        live = [[c, c.data_chunks(), [], []] for c in chans]
        streams = {}
        step = 0
        while live:
            for item in list(live):
                c, gen_, parts, again = item
                try:
                    ck = next(gen_)
                    first = ck[:]
                    parts.append(ops.norm(first))
                    again.append(ops.norm(ck[:]))        # looking at a chunk twice shows the same data ...
                    again.append(ops.norm(first))        # ... and does not change what the first look returned
                except StopIteration:
                    live.remove(item)
                    streams[c.path] = ops.concat_norm(parts) or ('arr', '?', 0, '')
                    streams[c.path + ' (every chunk looked at twice)'] = ops.concat_norm(again) or ('arr', '?', 0, '')
                except Exception as exc:
                    live.remove(item)
                    streams[c.path] = ('exc', type(exc).__name__)
                try:
                    chans[step % len(chans)].read_data(0, 1)
                except Exception:
                    pass
                step += 1
        out['streams'] = streams
    return out


def execute(case):
    res = Result()
    spec = case['spec']
    raw_ts = case['raw_ts']
    n = len(spec['segments'])
    variants = [('little', ['<'] * n), ('big', ['>'] * n), ('mixed', case['mixed'])]
    res.sig = [shape_sig(spec), case['mixed']]
    if any(sg.get('layout') == 'daqmx' for sg in spec['segments']):
        res.probe('daqmx-world')
    snaps = {}
    with store(record=False) as st:
        for name, es in variants:
            sp = with_endian(spec, es)
            w = build(sp)
            st.put(name + '.tdms', w.data)
            for lazy in (False, True):
                try:
                    src = st.source('simstream', name + '.tdms')
                    tf = lib.TdmsFile.open(src, raw_timestamps=raw_ts) if lazy else lib.TdmsFile.read(src, raw_timestamps=raw_ts)
                except Exception as exc:
                    res.violations.append(V('C15.read-raises', '%s-endian encoding, %s: %s: %s' % (
                        name, 'lazy' if lazy else 'eager', type(exc).__name__, exc), variant=name, exc=type(exc).__name__))
                    continue
                try:
                    snaps[(name, lazy)] = snapshot(tf, w, lazy)
                    if not lazy:
                        vs = compare.check_structure(tf, w, raw_ts, tagp='C15') + compare_channels(tf, w, raw_ts, res, tagp='C15')
                        vs += daqmx_against_model(tf, w)
                        for v in vs:
                            v.detail = '%s-endian encoding: %s' % (name, v.detail)
                            v.sig['variant'] = name
                        res.violations += vs
                finally:
                    if lazy:
                        tf.close()
                res.steps += 1
        if any(ch.type not in (None, 'str', 'bool', 'i8', 'u8') and ch.count for ch in w.chans.values()):
            res.nontrivial = True
        for lazy in (False, True):
            ref = snaps.get(('little', lazy))
            for name in ('big', 'mixed'):
                other = snaps.get((name, lazy))
                if ref is None or other is None:
                    continue
                res.compared += 1
                if other != ref:
                    what = [k for k in ref if ref[k] != other[k]]
                    detail = ''
                    for k in what:
                        if isinstance(ref[k], dict):
                            bad = [p for p in ref[k] if ref[k].get(p) != other[k].get(p)]
                            detail += ' %s%s: %s vs %s;' % (k, bad[:2], _lazy._short(other[k].get(bad[0]) if bad else None),
                                                            _lazy._short(ref[k].get(bad[0]) if bad else None))
                    res.violations.append(V('C15.encodings-differ', '%s-endian vs little-endian (%s):%s' % (
                        name, 'lazy' if lazy else 'eager', detail), variant=name, what=what[:1]))
    res.ev('snaps', digest(snaps.get(('little', False))), digest(snaps.get(('mixed', True))))
    return res


def daqmx_against_model(tf, w):
    out = []
    for path, ch in w.chans.items():
        if ch.type != 'daqmx':
            continue
        c = ops.chan(tf, w, path)
        got = ops.norm(c.raw_scaler_data)
        exp = _lazy.model_full(ch, True)
        if got != exp:
            out.append(V('C15.daqmx-data', '%s: scaler data %s expected %s' % (path, _lazy._short(got), _lazy._short(exp))))
    return out


def shrink_candidates(case):
    from ..shrink import spec_candidates
    if case['raw_ts']:
        c = dict(case)
        c['raw_ts'] = False
        yield c
    for sp in spec_candidates(case['spec']):
        c = dict(case)
        c['spec'] = sp
        c['mixed'] = (case['mixed'] + ['<'] * len(sp['segments']))[:len(sp['segments'])]
        yield c


def sample(case):
    return {'segments': shape_sig(case['spec']), 'mixed_byte_orders': case['mixed'], 'raw_timestamps': case['raw_ts']}
