"""C11 - DAQmx raw data is decoded at the declared buffer, stride, offset and type.

Stub producer in DAQmx mode; consumers: eager, lazy windows, chunk streams, and every cut offset
of the last segment (crash machinery).  Expected scaler columns come from the model's own
arithmetic over (buffer base + row*width + offset)."""
import random

from .. import gen, lib, ops, fmt
from ..backends import store
from ..compare import V
from ..core import Result, digest
from ..world import build, SpecError
from . import _lazy
from .c01 import shape_sig

PROP = 'C11'
LEVEL = 'exploration'
N = {'quick': 450, 'thorough': 20000}
BATCH = 20
RULE = ('seeded DAQmx worlds: 1-5 channels, 1-3 scalers each (format-changing over the ten DAQmx types, digital '
        'lines on uint8), 1-3 raw buffers with widths >= the scalers they hold plus padding, per-buffer row '
        'counts, 0-4 chunks, 1-4 segments with restated / matches-previous / carried-over indexes, both byte '
        'orders, random buffer bytes. Per world: eager raw_scaler_data / raw_data / read_data(scaled=False) / scaled '
        'reads vs the model columns; lazy windows and chunk streams vs slices of the model; every cut offset of '
        'the last segment (complete rows only, prefix, lazy == eager). distinct = (widths, scaler layout, rows, '
        'chunks) signature; non-trivial = at least one scaler column with >= 1 row compared')
EXPECTED_PROBES = ['multi-buffer', 'padding-in-row', 'digital-line', 'multi-chunk', 'cut-in-second-buffer', 'big-endian',
                   'multi-scaler-channel']
DTYPES = list(fmt.DAQMX_CODES)


def gen_daqmx_spec(rng, max_segments=4, max_channels=5, wide_p=0.06, wide_digital_p=0.0, nodata_p=0.1):
    g = 'Group'
    names = {'/': [], fmt.quote_path(g): [g]}
    nch = rng.randint(1, max_channels)
    nbuf = rng.choice([1, 1, 2, 3])
    widths = [rng.choice([1, 2, 3, 4, 6, 8, 9, 12, 16, 24]) for _ in range(nbuf)]
    if rng.random() < wide_p:
        # a wide row (hundreds of channels acquired together): byte offsets beyond 255 and 511
        widths[rng.randrange(nbuf)] = rng.choice([255, 256, 257, 300, 513, 700])
    chans = []
    for i in range(nch):
        p = fmt.quote_path(g, 'Channel%d' % i)
        names[p] = [g, 'Channel%d' % i]
        kind = 'digital' if rng.random() < 0.2 else 'format'
        nsc = rng.choice([1, 1, 2, 3])
        multi = nbuf > 1 and rng.random() < 0.1
        b0 = rng.randrange(nbuf)
        scalers = []
        ids = list(range(nsc)) if rng.random() < 0.8 else sorted(rng.sample(range(5), nsc))
        for sid in ids:
            b = rng.randrange(nbuf) if multi else b0
            if kind == 'digital':
                t = 'u8'
                off = rng.randint(0, widths[b] * 8 - 1)
                if wide_digital_p and rng.random() < wide_digital_p:
                    # a line of a 16, 32 or 64 bit port: the port value is stored in the segment's byte order (only where
                    # the caller asks for it - C15 - because 'the addressed bit' is then a matter of the byte order)
                    cands = [x for x in ('u16', 'u32', 'u64', 'i16', 'i32') if fmt.size_of(x) <= widths[b]]
                    if cands:
                        t = rng.choice(cands)
                        off = rng.randint(0, (widths[b] - fmt.size_of(t)) * 8 + 7)
            else:
                cands = [t for t in DTYPES if fmt.size_of(t) <= widths[b]]
                t = rng.choice(cands)
                off = rng.randint(0, widths[b] - fmt.size_of(t))
                if widths[b] > 200 and rng.random() < 0.6:
                    off = rng.randint(max(0, min(250, widths[b] - fmt.size_of(t))), widths[b] - fmt.size_of(t))
            scalers.append({'type': t, 'buffer': b, 'offset': off, 'bitmap': rng.choice([0, 0, 1, 255]), 'id': sid})
        extra = None
        floats = [sc['id'] for sc in scalers if sc['type'] in ('f64', 'f32')]
        if kind == 'format' and floats and rng.random() < 0.3:
            # a further scale on top of one floating point scaler (a strain gauge, a linear calibration): reading scaled
            # data must leave the raw scaler values what the file holds
            extra = {'kind': rng.choice(['Strain', 'Strain', 'Linear']), 'src': rng.choice(floats)}
        # the raw data index states the scaler's ordinary data type instead of DaqMxRawData (files of NI FlexLogger): the
        # channel is then a plain array fed from its one scaler
        plain = kind == 'format' and len(scalers) == 1 and extra is None and rng.random() < 0.15
        chans.append({'path': p, 'kind': kind, 'scalers': scalers, 'multi': multi, 'extra': extra, 'plain': plain})
    spec = {'version': rng.choice([4712, 4713]), 'names': names, 'segments': []}
    nseg = rng.randint(1, max_segments)
    endian_mode = rng.choice(['<', '<', '>', 'mixed'])
    rows = None
    active = []
    stated = set()
    for k in range(nseg):
        e = endian_mode if endian_mode != 'mixed' else rng.choice('<>')
        seg = {'endian': e, 'layout': 'daqmx', 'pad': 0, 'toc_interleaved': rng.random() < 0.5}
        meta = k == 0 or rng.random() < 0.7
        seg['meta'] = meta
        if meta:
            restate = k == 0 or rng.random() < 0.5
            new_list = k == 0 or rng.random() < 0.5
            seg['new_obj_list'] = new_list
            listed = []
            if k == 0:
                listed.append({'path': '/', 'index': 'none', 'props': []})
                listed.append({'path': fmt.quote_path(g), 'index': 'none', 'props': []})
            if restate:
                rows = [rng.randint(0, 6) if rng.random() < 0.9 else 0 for _ in range(nbuf)]
                if rng.random() < 0.5:
                    rows = [rows[0]] * nbuf
            subset = chans if (k == 0 or not new_list or rng.random() < 0.6) else rng.sample(chans, rng.randint(1, len(chans)))
            if new_list:
                active = []
            for c in subset:
                if c['multi'] and len(set(rows[s['buffer']] for s in c['scalers'])) > 1:
                    rows = [rows[0]] * nbuf
            for c in subset:
                cnt = rows[c['scalers'][0]['buffer']]
                L = {'path': c['path'], 'props': []}
                if k > 0 and c['path'] in stated and rng.random() < nodata_p:
                    # listed with the 'no raw data' header (a property set while logging, a channel that pauses): a later
                    # 'same as before' refers to the index it had when it last carried data
                    L['index'] = 'none'
                elif restate or c['path'] not in stated:
                    scalers = c['scalers']
                    if c['path'] in stated and rng.random() < 0.5:
                        # the index is stated again with the same lengths, widths, scale ids and types but the scalers sit
                        # elsewhere in the rows (the task was set up again with its channels in another order)
                        scalers = _relocated(rng, c, widths)
                    stated.add(c['path'])
                    L.update({'index': 'full', 'type': 'daqmx', 'count': cnt,
                              'daqmx': {'kind': c['kind'], 'scalers': scalers, 'widths': list(widths)}})
                    if c.get('plain'):
                        L['daqmx']['plain'] = True
                    if (k == 0 or rng.random() < 0.3) and not c.get('plain'):
                        nscales = max(s['id'] for s in c['scalers']) + 1
                        L['props'] = [['NI_Number_Of_Scales', 'u32', nscales], ['NI_Scaling_Status', 'str', 'unscaled']]
                        if c.get('extra'):
                            from .. import scalemodel
                            L['props'][0] = ['NI_Number_Of_Scales', 'u32', nscales + 1]
                            if c['extra']['kind'] == 'Linear':
                                pfx = 'NI_Scale[%d]_' % nscales
                                L['props'] += [[pfx + 'Scale_Type', 'str', 'Linear'], [pfx + 'Linear_Slope', 'f64', scalemodel.f64(2.0)],
                                               [pfx + 'Linear_Y_Intercept', 'f64', scalemodel.f64(1.0)],
                                               [pfx + 'Linear_Input_Source', 'u32', c['extra']['src']]]
                            else:
                                L['props'] += scalemodel.sensor_scale_props(rng, nscales, c['extra']['src'], kind='Strain')[1]
                else:
                    L['index'] = 'same'
                listed.append(L)
                if c['path'] not in active:
                    active.append(c['path'])
            seg['listed'] = listed
        else:
            seg['new_obj_list'] = False
        r = rng.random()
        seg['chunks'] = 0 if r < 0.08 else (1 if r < 0.5 else rng.randint(2, 4))
        seg['_rows'] = list(rows)
        spec['segments'].append(seg)
    # buffers are filled after a trial build tells the buffer dimensions actually in force
    for seg in spec['segments']:
        seg['buffers'] = []
    try:
        w = build(_strip(spec, fill=None))
    except SpecError:
        return None
    for seg, si in zip(spec['segments'], w.segs):
        dims = _dims_of(si)
        if si.chunk_size == 0:
            seg['chunks'] = 0
        seg['buffers'] = [[rng.randbytes(r * wd) for (r, wd) in dims] for _ in range(seg['chunks'])]
        seg.pop('_rows', None)
    return spec


def _relocated(rng, c, widths):
    out = []
    for sc in c['scalers']:
        size = fmt.size_of(sc['type'])
        wd = widths[sc['buffer']]
        if c['kind'] == 'digital':
            off = rng.randint(0, (wd - size) * 8 + 7)
        else:
            off = rng.randint(0, wd - size)
        out.append(dict(sc, offset=off))
    return out


def _strip(spec, fill):
    s2 = dict(spec)
    s2['segments'] = []
    for seg in spec['segments']:
        sg = {k: v for k, v in seg.items() if k != '_rows'}
        sg['chunks'] = 0
        sg['buffers'] = []
        s2['segments'].append(sg)
    return s2


def _dims_of(si):
    from ..world import _daqmx_dims
    return _daqmx_dims([(p, h, i) for (p, h, i) in si.active if h])


def maybe_daqmx_world(rng, p, **kw):
    if rng.random() >= p:
        return None
    for _ in range(10):
        spec = gen_daqmx_spec(rng, **kw)
        if spec is None:
            continue
        try:
            build(spec)
            return spec
        except SpecError:
            continue
    return None


def generate(rng, tier):
    spec = None
    while spec is None:
        spec = maybe_daqmx_world(rng, 1.0)
    w = build(spec)
    allreqs = _lazy.gen_requests(rng, w, 'quick', per_channel=10)
    reqs = [r for r in allreqs if r['op'] == 'read_data'][:40]
    for r in reqs:
        r['scaled'] = False
    # scaled integer indices and slices too (for a channel whose only scale is a raw scaler they are that scaler's values):
    # integer indexing keeps the chunk last read, slices may be served from it
    extra = [r for r in allreqs if r['op'] in ('index', 'slice') and not (r['op'] == 'slice' and r.get('step') == 0)][:24]
    reqs = reqs + extra
    rng.shuffle(reqs)
    cuts = None
    last = w.segs[-1]
    lo, n = max(4, last.pos + 1), len(w.data)
    if n - lo > 1500:
        # wide rows: every byte of the last segment's metadata, then a seeded sample of the raw data offsets
        cs = set(range(lo, min(n, last.pos + 36))) | set(range(max(lo, n - 40), n))
        meta = list(range(min(n, last.pos + 36), min(n, last.data_pos + 8)))
        cs |= set(rng.sample(meta, min(150, len(meta))))
        cs |= set(rng.sample(range(last.data_pos, n), min(250, n - last.data_pos)))
        cuts = sorted(cs)
    return {'spec': spec, 'ops': reqs, 'cuts': cuts, 'short_seed': rng.getrandbits(32) if rng.random() < 0.3 else None,
            'drop_file': rng.random() < 0.12,
            # the last segment's chunk restated as 1, 2 or 4 GiB long (see check_stated_huge)
            'declared_huge': rng.random() < 0.2, 'huge_bytes': rng.choice([2**30, 2**31, 2**32])}


def daqmx_sig(spec):
    out = []
    for s in spec['segments']:
        out.append((s['endian'], s.get('meta'), s.get('new_obj_list'), s['chunks'],
                    [(L['index'], L.get('count'), L['daqmx']['kind'], L['daqmx']['widths'],
                      [(x['type'], x['buffer'], x['offset'], x['id']) for x in L['daqmx']['scalers']])
                     if L.get('type') == 'daqmx' else (L['index'],) for L in s.get('listed', [])]))
    return out


def complete_rows(w, cut):
    """path -> max number of values that lie in complete rows before the cut."""
    out = {}
    for path, ch in w.chans.items():
        out[path] = 0
    for s in w.segs:
        data_objs = [(p, h, i) for (p, h, i) in s.active if h]
        dims = _dims_of(s) if data_objs else []
        for c in range(s.chunks):
            base = s.data_pos + c * s.chunk_size
            starts = []
            acc = base
            for (r, wd) in dims:
                starts.append(acc)
                acc += r * wd
            for (p, h, idx) in data_objs:
                n = idx['count']
                avail = n
                for sc in idx['daqmx']['scalers']:
                    r, wd = dims[sc['buffer']]
                    st_ = starts[sc['buffer']]
                    rows_ok = max(0, min(r, (cut - st_) // wd)) if cut > st_ else 0
                    avail = min(avail, rows_ok)
                out[p] += avail
    return out


def execute(case):
    res = Result()
    spec = case['spec']
    w = build(spec)
    res.sig = [daqmx_sig(spec)]
    widths = [L['daqmx']['widths'] for s in spec['segments'] for L in s.get('listed', []) if L.get('type') == 'daqmx']
    if widths and len(widths[0]) > 1:
        res.probe('multi-buffer')
    for s in spec['segments']:
        for L in s.get('listed', []):
            if L.get('type') == 'daqmx':
                d = L['daqmx']
                if d['kind'] == 'digital':
                    res.probe('digital-line')
                if len(d['scalers']) > 1:
                    res.probe('multi-scaler-channel')
                used = {}
                for sc in d['scalers']:
                    used[sc['buffer']] = used.get(sc['buffer'], 0) + fmt.size_of(sc['type'])
                if any(d['widths'][b] > u for b, u in used.items()):
                    res.probe('padding-in-row')
        if s['chunks'] > 1:
            res.probe('multi-chunk')
        if s['endian'] == '>':
            res.probe('big-endian')
    with store(short_seed=case['short_seed'], record=False) as st:
        st.put('w.tdms', w.data)
        try:
            eager = lib.TdmsFile.read(st.source('simstream', 'w.tdms'))
            lazy = lib.TdmsFile.open(st.source('simstream', 'w.tdms'))
        except Exception as exc:
            res.violations.append(V('C11.read-raises', '%s: %s' % (type(exc).__name__, exc), exc=type(exc).__name__))
            return res
        if case.get('drop_file'):
            import gc
            lazy = ops.KeptChannels(lazy, w)      # the caller keeps the channel objects only
            gc.collect()
            res.probe('file-object-dropped')
        fulls = {}
        for path, ch in w.chans.items():
            if ch.type != 'daqmx':
                continue
            full = _lazy.model_full(ch, True)
            fulls[path] = full
            c = ops.chan(eager, w, path)
            if len(c) != ch.count:
                res.violations.append(V('C11.len', '%s: len %d expected %d' % (path, len(c), ch.count)))
            got = ops.norm(c.raw_scaler_data)
            res.compared += 1
            if ch.count:
                res.nontrivial = True
            if got != full:
                bad = [sid for (sid, a), (_s2, b) in zip(got[1], full[1]) if a != b] if len(got[1]) == len(full[1]) else '?'
                res.violations.append(V('C11.scaler-data', '%s: raw_scaler_data differs for scaler(s) %s: got %s expected %s' % (
                    path, bad, _lazy._short(got), _lazy._short(full))))
                continue
            # the other unscaled access paths
            for name, fn in (('read_data(scaled=False)', lambda: c.read_data(scaled=False)),
                             ('lazy read_data(scaled=False)', lambda: ops.chan(lazy, w, path).read_data(scaled=False))):
                g2, exc, eo = ops.try_op(lambda: ops.norm(fn()))
                if exc:
                    res.violations.append(V('C11.raises', '%s on %s: %s: %s' % (name, path, exc, eo), exc=exc))
                elif g2 != full and ch.count:
                    res.violations.append(V('C11.unscaled-paths', '%s on %s: %s expected %s' % (name, path, _lazy._short(g2), _lazy._short(full))))
            if len(ch.scalers) == 1:
                g2, exc, eo = ops.try_op(lambda: ops.norm(c.raw_data))
                if exc or g2 != full[1][0][1]:
                    res.violations.append(V('C11.raw_data', '%s: raw_data %s expected %s' % (path, exc or _lazy._short(g2), _lazy._short(full[1][0][1]))))
            # scaled = the last scale = scaler with the highest id (NI_Number_Of_Scales = max id + 1)
            props = w.props.get(path, {})
            if 'NI_Number_Of_Scales' in props:
                out_id = props['NI_Number_Of_Scales'][1] - 1
                exp = dict(full[1]).get(out_id)
                for name, tf in (('eager', eager), ('lazy', lazy)):
                    g2, exc, eo = ops.try_op(lambda: ops.norm(ops.chan(tf, w, path)[:]))
                    if exc:
                        res.violations.append(V('C11.raises', '%s [:] on %s: %s: %s' % (name, path, exc, eo), exc=exc))
                    elif exp is not None and g2 != exp and ch.count:
                        res.violations.append(V('C11.scaled', '%s [:] on %s: %s expected scaler %d %s' % (
                            name, path, _lazy._short(g2), out_id, _lazy._short(exp))))
                # chunk stream of scaled data
                def stream():
                    parts = []
                    count = 0
                    for ck in ops.chan(lazy, w, path).data_chunks():
                        if ck.offset != count:
                            raise AssertionError('chunk offset %d after %d values' % (ck.offset, count))
                        d = ck[:]
                        count += len(d)
                        parts.append(ops.norm(d))
                    return ops.concat_norm(parts) or ('arr', '?', 0, '')
                g2, exc, eo = ops.try_op(stream)
                if exc:
                    res.violations.append(V('C11.raises', 'data_chunks on %s: %s: %s' % (path, exc, eo), exc=exc))
                elif exp is not None and ch.count and g2 != exp:
                    res.violations.append(V('C11.chunk-stream', '%s: %s expected %s' % (path, _lazy._short(g2), _lazy._short(exp))))
        # lazy windows = slices of the model
        for i, op in enumerate(case['ops']):
            full = fulls.get(op['ch'])
            if w.chans[op['ch']].type != 'daqmx' and w.chans[op['ch']].type is not None:
                full = _lazy.model_full(w.chans[op['ch']], True)      # a DAQmx channel with an ordinary data type
                res.probe('daqmx-plain-typed-channel')
            elif op['op'] != 'read_data':
                full = _lazy.op_full(w, w.chans[op['ch']], op, False)
                if full is not None:
                    res.probe('scaled-index-or-slice')
            if full is None:
                continue
            # every third lazy result is worked on in place by the caller afterwards
            v, g_, exc = _lazy.check_op(lazy, w, op, full, 'C11.window', 'lazy', res=res, scribble=(i % 3 == 0))
            res.steps += 1
            if v is not None:
                res.violations.append(v)
            v, g_, exc = _lazy.check_op(eager, w, op, full, 'C11.window', 'eager')
            if v is not None:
                res.violations.append(v)
            if len(res.violations) > 3:
                break
        # after all of the above (scaled reads included) the raw scaler values are still what the file holds
        for path, full in fulls.items():
            g2, exc, eo = ops.try_op(lambda: ops.norm(ops.chan(eager, w, path).raw_scaler_data))
            if exc is None and g2 != full:
                res.violations.append(V('C11.scaler-data', '%s: raw_scaler_data no longer equals the bytes of the file after scaled data '
                                        'was read: %s expected %s' % (path, _lazy._short(g2), _lazy._short(full)), after_scaled_read=True))
                break
        lazy.close()
        # crash points of the last segment
        last = w.segs[-1]
        cuts = case['cuts']
        if cuts is None:
            cuts = list(range(max(4, last.pos + 1), len(w.data))) if not res.violations else []
        for c in cuts:
            res.sub_evals += 1
            vs = check_cut(w, c, st, res)
            res.violations += vs
            if c > last.data_pos and last.chunk_size:
                dims = _dims_of(last)
                off = (c - last.data_pos) % last.chunk_size
                if len(dims) > 1 and off > dims[0][0] * dims[0][1]:
                    res.probe('cut-in-second-buffer')
            if len(res.violations) > 3:
                break
        if case.get('declared_huge') and not res.violations:
            res.violations += check_stated_huge(case, w, spec, st, res)
        st.fs.faults_fired['crash'] = st.fs.faults_fired.get('crash', 0) + len(cuts)
        for k, v_ in st.fs.faults_fired.items():
            res.fault(k, v_)
    res.ev('violations', [v.as_dict() for v in res.violations])
    return res


def check_cut(w, c, st, res):
    return check_bytes(w, w.data[:c], w.guaranteed(c), complete_rows(w, c), c, st, res)


def stated_huge_file(w, spec, huge_bytes, declared_offset):
    """The bytes of the world with the DAQmx chunk of its last segment restated as `huge_bytes` long (an acquisition set up
    for a long record that stopped after a few rows), or None when the last segment is not of the simple shape this is
    done for: metadata present, one chunk, every data object listed in full with one common length, one raw buffer."""
    import struct
    last, seg = w.segs[-1], spec['segments'][-1]
    if not last.has_meta or last.chunks != 1 or not last.chunk_size:
        return None
    listed = [L for L in seg.get('listed', []) if L.get('type') == 'daqmx' and L.get('index') == 'full']
    data_paths = set(p for (p, h, _i) in last.active if h)
    if not listed or set(L['path'] for L in listed) != data_paths:
        return None
    widths = listed[0]['daqmx']['widths']
    counts = set(L['count'] for L in listed)
    if len(widths) != 1 or len(counts) != 1 or list(counts)[0] < 1:
        return None
    n, e = list(counts)[0], last.endian
    big = huge_bytes // widths[0] + 7
    data = bytearray(w.data)
    lo, hi = last.pos + fmt.LEAD_IN, last.data_pos
    found = 0
    for k in sorted(set(len(L['daqmx']['scalers']) for L in listed)):
        pat = struct.pack(e + 'LQL', 1, n, k)
        at = data.find(pat, lo, hi)
        while at >= 0:
            data[at:at + len(pat)] = struct.pack(e + 'LQL', 1, big, k)
            found += 1
            at = data.find(pat, at + len(pat), hi)
    if found != len(listed):
        return None
    if declared_offset:
        raw_off = struct.unpack(e + 'Q', bytes(data[last.pos + 20:last.pos + 28]))[0]
        data[last.pos + 12:last.pos + 20] = struct.pack(e + 'Q', raw_off + big * widths[0])
    return bytes(data), n, widths[0]


def check_stated_huge(case, w, spec, st, res):
    """Cut files (and, with the real size in the lead-in, the complete file) whose last segment states a DAQmx chunk of
    1, 2 or 4 GiB: what is read is the rows that exist."""
    out = []
    last = w.segs[-1]
    for declared_offset in (False, True):
        made = stated_huge_file(w, spec, case['huge_bytes'], declared_offset)
        if made is None:
            return out
        data, n, width = made
        res.probe('daqmx-stated-huge-chunk')
        ends = sorted(set([last.data_pos, last.data_pos + 1, last.data_pos + n * width - 1, last.data_pos + n * width] +
                          [last.data_pos + r * width + d for r in (1, n // 2) for d in (0, 1)]))
        for c in ends:
            if not (last.data_pos <= c <= len(data)) or (c < len(data) and not declared_offset and False):
                continue
            rows = (c - last.data_pos) // width
            maxrows, guaranteed = {}, {}
            for path, ch in w.chans.items():
                prev = ch.count - ch.seg_counts.get(last.k, 0)
                here = rows if ch.seg_counts.get(last.k, 0) else 0
                maxrows[path] = prev + here
                guaranteed[path] = prev + (here if (c == len(data) and not declared_offset) else 0)
            res.sub_evals += 1
            out += check_bytes(w, data[:c], guaranteed, maxrows, 'stated %d-byte chunk, %s next-segment offset, file ends at %d' % (
                case['huge_bytes'], 'stated' if declared_offset else 'real', c), st, res, stated_huge=True)
            if len(out) > 3:
                return out
    return out


def check_bytes(w, data, guaranteed, maxrows, c, st, res, **sig):
    out = []
    st.put('cut.tdms', data)
    c = ('cut %d' % c) if isinstance(c, int) else c
    try:
        eager = lib.TdmsFile.read(st.source('simstream', 'cut.tdms'))
    except Exception as exc:
        return [V('C11.cut-raises', '%s: %s: %s' % (c, type(exc).__name__, exc), exc=type(exc).__name__, **sig)]
    try:
        lazy = lib.TdmsFile.open(st.source('simstream', 'cut.tdms'))
    except Exception as exc:
        return [V('C11.cut-raises', '%s: lazy open %s: %s' % (c, type(exc).__name__, exc), exc=type(exc).__name__, **sig)]
    try:
        for g in eager.groups():
            for chn in g.channels():
                ch = w.chans.get(chn.path)
                if ch is None or ch.type != 'daqmx':
                    continue
                try:
                    got = ops.norm(chn.raw_scaler_data)
                    lz = ops.norm(ops.chan(lazy, w, chn.path).read_data(scaled=False))
                except Exception as exc:
                    out.append(V('C11.cut-raises', '%s: %s: %s: %s' % (c, chn.path, type(exc).__name__, exc), exc=type(exc).__name__, **sig))
                    continue
                n = _lazy.full_len(got) if got[1] else 0
                res.compared += 1
                if len(chn) != n:
                    out.append(V('C11.cut-len', '%s: %s len()=%d, %d values' % (c, chn.path, len(chn), n)))
                if n > maxrows[chn.path]:
                    out.append(V('C11.cut-incomplete-row', '%s: %s returns %d values but only %d lie in complete rows' % (
                        c, chn.path, n, maxrows[chn.path])))
                    continue
                if n < guaranteed[chn.path]:
                    out.append(V('C11.cut-loses-data', '%s: %s returns %d values, %d guaranteed' % (c, chn.path, n, guaranteed[chn.path])))
                full = _lazy.model_full(ch, True)
                if n and got != _lazy.take_norm(full, range(n)):
                    out.append(V('C11.cut-not-prefix', '%s: %s scaler data is not a prefix of the complete file' % (c, chn.path)))
                if n and lz != got:
                    out.append(V('C11.cut-lazy-eager', '%s: %s lazy %s eager %s' % (c, chn.path, _lazy._short(lz), _lazy._short(got))))
    finally:
        lazy.close()
    return out


def shrink_candidates(case):
    from ..shrink import spec_candidates, list_candidates
    for o in list_candidates(case['ops']):
        c = dict(case)
        c['ops'] = o
        yield c
    if case['cuts'] is None:
        c = dict(case)
        c['cuts'] = []
        yield c
        w = build(case['spec'])
        for cand in list_candidates(list(range(max(4, w.segs[-1].pos + 1), len(w.data)))):
            c = dict(case)
            c['cuts'] = cand
            yield c
    else:
        for cand in list_candidates(case['cuts']):
            c = dict(case)
            c['cuts'] = cand
            yield c
    if case['short_seed'] is not None:
        c = dict(case)
        c['short_seed'] = None
        yield c
    for sp in spec_candidates(case['spec']):
        c = dict(case)
        c['spec'] = sp
        c['ops'] = [o for o in case['ops'] if o['ch'] in sp['names']]
        c['cuts'] = None if case['cuts'] is None else []
        yield c


def sample(case):
    return {'segments': daqmx_sig(case['spec']), 'n_ops': len(case['ops'])}
