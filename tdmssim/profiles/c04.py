"""C04 - windows, slices and indices mean what they mean on the full array.

Fault-free (plus the 'truncated final chunk' variant the statement names): one lazy and one eager
handle per world, an explicit request list, numpy indexing on the full array as oracle."""
from .. import gen, lib, ops
from ..backends import store
from ..compare import V
from ..core import Result, digest
from ..world import build
from . import _lazy
from .c01 import shape_sig

PROP = 'C04'
LEVEL = 'exploration'
N = {'quick': 6500, 'thorough': 100000}
RULE = ('seeded worlds biased to channels absent from segments, multi-chunk segments, zero-length chunks, '
        'interleaved layout and (20%) a cut inside the last segment; per world an explicit list of '
        'read_data(offset,length) windows (all windows for channels of <=24 values in the thorough tier, '
        'chunk/segment-boundary-adjacent ones plus a sample in quick), slices over [-len-2,len+2]x steps '
        '{None,+-1,+-2,+-3,0} and integer indices in [-len-2,len+1], each run on a lazily opened and an eagerly '
        'read handle and compared with numpy indexing on the full array. distinct = (segment shape sequence, '
        'cut class); non-trivial = at least one non-empty window compared')
EXPECTED_PROBES = ['file-object-dropped', 'concurrent-readers', 'window-ends-in-multichunk-after-gap', 'window-in-truncated-last-chunk', 'empty-window-at-boundary',
                   'daqmx-window']


def opts(tier):
    o = gen.Opts()
    o.max_segments = 7
    o.max_channels = 4
    o.props = False
    o.huge_p = 0.004
    o.many_segments_p = 0.01
    o.p_none = 0.25
    o.max_chunks = 5
    o.long_run_p = 0.006
    o.short_last_p = 0.08
    o.declared_huge_p = 0.01
    o.equal_shapes_p = 0.2

    def scaling(rng, spec, ctype):
        # scaled channels (a quarter of the worlds): a window of scaled data is the window of the scaled full array, whatever
        # was read before through the same handle (scalings that work in place, caches of scaled chunks)
        if rng.random() < 0.25:
            from .c14 import add_sensor
            from .c13 import add_scaling
            add_sensor(rng, spec, ctype, 0.4, only_float=True)
            add_scaling(rng, spec, ctype, p=0.4)
    o.scaling = scaling
    return gen.deepen(o, tier)


def generate(rng, tier):
    o = opts(tier)
    raw_ts = rng.random() < 0.5
    from .c11 import maybe_daqmx_world
    spec = maybe_daqmx_world(rng, 0.1)
    daq = spec is not None
    if spec is None:
        spec, w, _ = gen.gen_world(rng, o)
    else:
        w = build(spec)
    cut = None
    last = w.segs[-1]
    if not daq and last.end - last.data_pos > 1 and not spec['segments'][-1].get('short_last') and rng.random() < 0.2:
        cut = rng.randint(last.data_pos + 1, last.end - 1)
    reqs = _lazy.gen_requests(rng, w, tier)
    for r in reqs:
        if r['op'] == 'read_data' and w.chans[r['ch']].type == 'daqmx' and rng.random() < 0.5:
            r['scaled'] = False
    if spec['segments'][-1].get('declared_huge'):
        # value counts of 2**31 and more take part in the position arithmetic of these channels: the windows asked for with
        # 32 bit numpy integers are where fixed-width arithmetic would give way
        for L in spec['segments'][-1]['listed']:
            n = w.chans[L['path']].count
            reqs.append({'op': 'read_data', 'ch': L['path'], 'offset': max(0, n - 2), 'length': 2, 'np': 'int32'})
            reqs.append({'op': 'read_data', 'ch': L['path'], 'offset': 0, 'length': 1, 'np': 'int32'})
            reqs.append({'op': 'slice', 'ch': L['path'], 'start': -2, 'stop': None, 'step': None, 'np': 'int32'})
    threads = None
    if reqs and rng.random() < 0.1:
        threads = {'seed': rng.getrandbits(32), 'switch_p': rng.choice([0.05, 0.2, 0.5]),
                   'ops': [dict(r) for r in rng.sample(reqs, min(len(reqs), rng.randint(2, 3)))]}
    return {'spec': spec, 'raw_ts': raw_ts, 'cut': cut, 'ops': reqs,
            'short_seed': rng.getrandbits(32) if rng.random() < 0.3 else None, 'debug_log': rng.random() < 0.05,
            'memmap': rng.random() < 0.12, 'threads': threads,
            # the caller keeps the channel objects and lets go of the lazily opened TdmsFile
            'drop_file': rng.random() < 0.1, 'touch': rng.random() < 0.1}


def _sig(spec):
    from .c11 import daqmx_sig
    return daqmx_sig(spec) if any(s.get('layout') == 'daqmx' for s in spec['segments']) else shape_sig(spec)


def gap_probe(res, w, op, n):
    """window ends inside a multi-chunk segment that follows >=1 segment without the channel"""
    ch = w.chans[op['ch']]
    if op['op'] != 'read_data' or not ch.prov:
        return
    end = n if op['length'] is None else min(n, op['offset'] + op['length'])
    if end <= op['offset']:
        if end in _lazy.boundaries(ch):
            res.probe('empty-window-at-boundary')
        return
    segs = sorted(set(p[0] for p in ch.prov))
    for (k, c, first, cnt, _e, _ce) in ch.prov:
        if first < end <= first + cnt:
            nchunks = sum(1 for p in ch.prov if p[0] == k)
            prev = [s for s in segs if s < k]
            start_seg = max([p[0] for p in ch.prov if p[2] <= op['offset']] or [k])
            if nchunks > 1 and prev and start_seg < k and any(
                    s not in segs for s in range(start_seg + 1, k)):
                res.probe('window-ends-in-multichunk-after-gap')
            break


def tail_file_windows(spec, raw_ts, st, res):
    out = []
    tail = {'version': spec['version'], 'names': spec['names'], 'segments': [spec['segments'][-1]]}
    try:
        w2 = build(tail)
    except Exception:
        return out
    st.put('tail.tdms', w2.data)
    res.probe('stated-huge-segment-alone')
    tf = lib.TdmsFile.open(st.source('simstream', 'tail.tdms'), raw_timestamps=raw_ts)
    try:
        for path, ch in w2.chans.items():
            if ch.type is None or not ch.count:
                continue
            full = _lazy.model_full(ch, raw_ts)
            for npname in ('int32', 'int64'):
                for op in ({'op': 'read_data', 'ch': path, 'offset': 0, 'length': 1, 'np': npname},
                           {'op': 'read_data', 'ch': path, 'offset': ch.count - 1, 'length': 3, 'np': npname},
                           {'op': 'slice', 'ch': path, 'start': -1, 'stop': None, 'step': None, 'np': npname},
                           {'op': 'index', 'ch': path, 'i': ch.count - 1, 'np': npname}):
                    v, _g, _exc = _lazy.check_op(tf, w2, op, full, 'C04', 'lazy', res=res)
                    res.compared += 1
                    if v is not None:
                        v.sig['tail_file'] = True
                        out.append(v)
                        return out
    finally:
        tf.close()
    return out


def execute(case):
    res = Result()
    spec = case['spec']
    w = build(spec)
    raw_ts = case['raw_ts']
    data = w.data if case['cut'] is None else w.data[:case['cut']]
    res.sig = [_sig(spec), None if case['cut'] is None else 'cut']
    with store(short_seed=case['short_seed'], record=False) as st, lib.knobs(debug_log=case.get('debug_log', False)):
        st.put('w.tdms', data)
        try:
            kw = {'memmap_dir': st.realdir()} if case.get('memmap') else {}
            if kw:
                res.probe('memmap')
            eager = lib.TdmsFile.read(st.source('simstream', 'w.tdms'), raw_timestamps=raw_ts, **kw)
            lsrc = st.source('simstream', 'w.tdms')
            lazy = lib.TdmsFile.open(lsrc, raw_timestamps=raw_ts, **kw)
        except Exception as exc:
            # opening is C01's / C06's business
            res.skipped_ops += len(case['ops'])
            res.ev('open-raises', type(exc).__name__)
            return res
        if case.get('drop_file'):
            import gc
            kept = ops.KeptChannels(lazy, w)
            del lazy
            gc.collect()
            lazy = kept
            res.probe('file-object-dropped')
        fulls = {}
        keeper = ops.Keeper()
        for path, ch in w.chans.items():
            if case['cut'] is None:
                fulls[path] = _lazy.model_full(ch, raw_ts)
            else:
                # truncated file: "the full array" is what [:] returns (its prefix property is C06's)
                try:
                    fulls[path] = ops.norm(ops.chan(eager, w, path)[:])
                except Exception:
                    fulls[path] = None
        from .. import scalemodel
        scaled = [p_ for p_, ch in w.chans.items() if case['cut'] is None and ch.type not in (None, 'daqmx')
                  and scalemodel.channel_scales(w, p_) is not None]
        if scaled:
            # the oracle for scaled channels is the scaled full array as a freshly read file returns it (what the formulas
            # yield is C13's business)
            res.probe('scaled-channel')
            fresh = lib.TdmsFile.read(st.source('simstream', 'w.tdms'), raw_timestamps=raw_ts)
            for p_ in scaled:
                r_, exc_, _eo = ops.try_op(lambda: ops.norm(ops.chan(fresh, w, p_)[:]))
                fulls[p_] = r_ if (r_ is not None and r_[0] in ('arr', 'strs', 'rawts')) else None
        for i, op in enumerate(case['ops']):
            full = fulls.get(op['ch'])
            if case['cut'] is None and w.chans[op['ch']].type == 'daqmx':
                full = _lazy.op_full(w, w.chans[op['ch']], op, raw_ts)
                res.probe('daqmx-window')
            if full is None or (full[0] == 'dict' and op.get('scaled', True)):
                res.skipped_ops += 1
                continue
            n = _lazy.full_len(full)
            gap_probe(res, w, op, n)
            if case['cut'] is not None and op['op'] == 'read_data' and w.chans[op['ch']].count > n and (
                    op['length'] is None or op['offset'] + op['length'] >= n):
                res.probe('window-in-truncated-last-chunk')
            if case.get('touch') and i % 2:
                # the caller uses the stream it handed to TdmsFile.open itself between two reads
                try:
                    lsrc.seek((i * 7919) % (len(data) + 1))
                    lsrc.read(4)
                    res.probe('caller-moved-its-stream')
                except (OSError, ValueError):
                    pass
            for mode, tf in (('lazy', lazy), ('eager', eager)):
                v, g, exc = _lazy.check_op(tf, w, op, full, 'C04', mode, res=res, keeper=keeper if mode == 'lazy' else None,
                                           scribble=(mode == 'lazy' and i % 3 == 0))
                res.steps += 1
                res.compared += 1
                if g is not None and (g[0] not in ('arr', 'strs', 'rawts') or _lazy.full_len(g) > 0):
                    res.nontrivial = True
                if v is not None:
                    v.sig['i'] = i
                    res.violations.append(v)
                res.ev(i, mode, exc or (digest(g) if g is not None else None))
            if len(res.violations) > 5:
                break
        if spec['segments'][-1].get('declared_huge') and case['cut'] is None and not res.violations:
            # the same final segment as a file of its own: the segment that states 2**31 or more values per chunk is then the
            # first one of its channels, which is where positions computed with 32 bit numpy integers meet the large count
            res.violations += tail_file_windows(spec, raw_ts, st, res)
        if case.get('threads') and not res.violations:
            # the eagerly read file is documented as safe to read from concurrently: the same requests from 2-3 threads,
            # interleaved at line granularity inside nptdms by a seeded scheduler, must return what they return alone
            res.violations += _lazy.concurrent_reads(case['threads'], eager, w, res, 'C04.concurrent')
        for (label, before, after) in keeper.mutated()[:3]:
            res.violations.append(V('C04.result-changed-later', 'the array returned by %s changed when later reads ran: was %s, now %s' % (
                label, _lazy._short(before), _lazy._short(after))))
        lazy.close()
        res.io_events = st.fs.seq
        for k, v_ in st.fs.faults_fired.items():
            res.fault(k, v_)
    res.sub_evals = len(case['ops'])
    return res


def shrink_candidates(case):
    from ..shrink import spec_candidates, list_candidates
    if case.get('threads'):
        c = dict(case)
        c['threads'] = None
        yield c
        c = dict(case)
        c['ops'] = []
        yield c
    for ops_ in list_candidates(case['ops']):
        c = dict(case)
        c['ops'] = ops_
        yield c
    if case['short_seed'] is not None:
        c = dict(case)
        c['short_seed'] = None
        yield c
    if case['cut'] is None:
        for sp in spec_candidates(case['spec']):
            c = dict(case)
            c['spec'] = sp
            c['ops'] = [o for o in case['ops'] if o['ch'] in sp['names']]
            yield c


def sample(case):
    return {'segments': _sig(case['spec']), 'cut': case['cut'], 'n_ops': len(case['ops']), 'ops': case['ops'][:6]}
