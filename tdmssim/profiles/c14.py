"""C14 - channel.dtype and len(channel) describe what reads return.

Decided as a monitor: in every world every successful read op - full, window, slice, chunk,
iteration element, empty window, zero-length channel, eager and lazy - is checked against
channel.dtype / len(channel)."""
import warnings

import numpy as np

from .. import gen, lib, ops, fmt, scalemodel
from ..backends import store
from ..compare import V
from ..core import Result, digest
from ..world import build, SpecError
from . import _lazy
from .c01 import shape_sig
from .c13 import add_scaling, daqmx_scaled_world, _first_listing, small_values

PROP = 'C14'
LEVEL = 'exploration'
N = {'quick': 30000, 'thorough': 1200000}
RULE = ('seeded worlds over every raw type x {no scaling, structural scale graphs (as C13), one sensor scale: RTD / '
        'Thermocouple / Thermistor / Strain with benign parameters, optionally chained after a Linear scale}, DAQmx '
        'worlds, typeless and zero-length channels, big-endian segments; on an eager and a lazy handle every '
        'successful read (full, read_data windows incl. empty ones, slices, integer indices, iteration, channel '
        'and file-level chunks, .data) is checked: array dtype == channel.dtype (byte-order flag don\'t-care), '
        'scalars have that dtype\'s scalar type, full reads have len(channel) elements. distinct = (raw type, '
        'scale kinds, segment shape); non-trivial = a non-empty and an empty result of the same channel were both '
        'checked')
EXPECTED_PROBES = ['sensor:RTD', 'sensor:Thermocouple', 'sensor:Thermistor', 'sensor:Strain', 'float32-linear',
                   'empty-window', 'zero-length-channel', 'file-chunk-without-channel', 'daqmx', 'string-chunk', 'memmap', 'truncated-final-chunk']


def add_sensor(rng, spec, ctype, p, only_float=False):
    for path, t in ctype.items():
        if t not in scalemodel.SCALABLE or rng.random() >= p or path not in spec['names']:
            continue
        if only_float and t not in ('f32', 'f64'):
            continue
        L = _first_listing(spec, path)
        if L is None or any(pr[0].startswith('NI_') for pr in L['props']):
            continue
        props = []
        src = scalemodel.RAW
        idx = 0
        if rng.random() < 0.3:
            lin = [{'type': 'Linear', 'slope': scalemodel.Fraction(1, 4), 'intercept': scalemodel.Fraction(100), 'src': scalemodel.RAW,
                    'explicit_src': True}]
            props += scalemodel.scale_props(lin, with_count=False)
            src = 0
            idx = 1
        kind, sp = scalemodel.sensor_scale_props(rng, idx, src)
        props += sp
        props.append(['NI_Number_Of_Scales', 'u32', idx + 1])
        L['props'] = L['props'] + props
        size = fmt.size_of(t)
        for sg in spec['segments']:
            d = sg.get('data', {}).get(path)
            if d:
                sg['data'][path] = [small_values(rng, t, len(c) // size) for c in d]


def opts(tier):
    o = gen.Opts()
    o.max_segments = 4
    o.max_channels = 4
    o.many_segments_p = 0.0
    o.nasty_names = 0.03
    o.props = False
    o.short_last_p = 0.05
    o.declared_huge_p = 0.01
    o.equal_shapes_p = 0.15

    def scaling(rng, spec, ctype):
        add_sensor(rng, spec, ctype, 0.35)
        add_scaling(rng, spec, ctype, p=0.4)
    o.scaling = scaling
    return gen.deepen(o, tier)


def generate(rng, tier):
    spec = None
    if rng.random() < 0.12:
        spec = daqmx_scaled_world(rng)
    if spec is None:
        spec, _w, _ = gen.gen_world(rng, opts(tier))
    cut = None
    w = build(spec)
    last = w.segs[-1]
    if last.end - last.data_pos > 1 and not spec['segments'][-1].get('short_last') and rng.random() < 0.12:
        cut = rng.randint(last.data_pos + 1, last.end - 1)      # truncated final chunk: len() must still agree
    return {'spec': spec, 'raw_ts': rng.random() < 0.2, 'op_seed': rng.getrandbits(32), 'memmap': rng.random() < 0.2,
            'cut': cut,
            # after a first round of reads the caller edits the (public, mutable) properties dict of every channel in a way
            # that concerns scaling; whatever the library makes of that, dtype and len must go on describing what reads return
            'edit': rng.choice([None] * 8 + ['status', 'linear', 'channels-list'])}


def same_dtype(dt, declared):
    if dt.kind != declared.kind:
        return False
    if dt.kind in ('O',):
        return True
    if dt.kind == 'M':
        return dt == declared or dt.newbyteorder('=') == declared.newbyteorder('=')
    return dt.itemsize == declared.itemsize


def judge(res, out, label, value, declared, scalar=False):
    """value: what a successful read returned."""
    res.compared += 1
    if scalar:
        if declared.kind == 'O':
            ok = isinstance(value, str)
        elif isinstance(value, np.generic):
            ok = same_dtype(value.dtype, declared)
        else:
            ok = False
        if not ok:
            out.append(V('C14.scalar-type', '%s returned %s (%r), channel.dtype is %s' % (
                label, type(value).__name__, getattr(value, 'dtype', None), declared), declared=str(declared),
                got=str(getattr(value, 'dtype', type(value).__name__))))
        return
    if not isinstance(value, np.ndarray):
        out.append(V('C14.not-an-array', '%s returned a %s, channel.dtype is %s' % (label, type(value).__name__, declared),
                     declared=str(declared), got=type(value).__name__))
        return
    if not same_dtype(value.dtype, declared):
        out.append(V('C14.dtype', '%s returned dtype %s (%d values), channel.dtype is %s' % (
            label, value.dtype, len(value), declared), declared=str(declared), got=str(value.dtype), empty=len(value) == 0))


def monitor(tf, w, mode, raw_ts, rng, res):
    out = []
    file_chunks = []
    if mode.startswith('lazy'):
        try:
            for chunk in tf.data_chunks():
                file_chunks.append(chunk)
        except Exception:
            file_chunks = []
    for path, ch in w.chans.items():
        if ch.type == 'ts' and raw_ts:
            continue          # the statement names the dtype only for converted timestamps
        c = ops.chan(tf, w, path)
        try:
            declared = np.dtype(c.dtype)
            n = len(c)
        except Exception as exc:
            res.skipped_ops += 1
            continue
        if n == 0:
            res.probe('zero-length-channel')
        lab = '%s %s (%s)' % (mode, path, ch.type)
        got_empty = got_full = False

        def attempt(name, fn, scalar=False, full=False):
            nonlocal got_empty, got_full
            try:
                with warnings.catch_warnings():
                    warnings.simplefilter('ignore')
                    with np.errstate(all='ignore'):
                        v = fn()
            except Exception:
                res.skipped_ops += 1
                return None
            judge(res, out, lab + ' ' + name, v, declared, scalar=scalar)
            if not scalar and isinstance(v, np.ndarray):
                if len(v) == 0:
                    got_empty = True
                else:
                    got_full = True
                if full and len(v) != n:
                    out.append(V('C14.length', '%s %s returned %d values, len(channel) is %d' % (lab, name, len(v), n)))
            return v

        attempt('[:]', lambda: c[:], full=True)
        attempt('read_data()', lambda: c.read_data(), full=True)
        attempt('[...]', lambda: c[...], full=True)
        if mode.startswith('eager'):
            attempt('.data', lambda: c.data, full=True)
        for _ in range(3):
            off = rng.randint(0, n + 1)
            ln = rng.choice([0, 1, rng.randint(0, n + 1)])
            if ln == 0 or off >= n:
                res.probe('empty-window')
            attempt('read_data(%d,%d)' % (off, ln), lambda: c.read_data(off, ln))
        a, b = rng.randint(-n - 1, n + 1), rng.randint(-n - 1, n + 1)
        st = rng.choice([None, 1, 2, -1])
        attempt('[%d:%d:%s]' % (a, b, st), lambda: c[a:b:st])
        attempt('[%d:%d] (empty)' % (n, n), lambda: c[n:n])
        if n:
            i = rng.randint(-n, n - 1)
            attempt('[%d]' % i, lambda: c[i], scalar=True)
            def first_iter():
                for v in c:
                    return v
            attempt('iteration element', first_iter, scalar=True)
        if mode.startswith('lazy'):
            try:
                total = 0
                for k, ck in enumerate(c.data_chunks()):
                    total += len(ck)
                    if k <= 6:
                        attempt('data_chunks()[%d][:]' % k, lambda: ck[:])
                    if ch.type == 'str':
                        res.probe('string-chunk')
                res.compared += 1
                if total != n:
                    out.append(V('C14.length', '%s: the chunks of data_chunks() hold %d values, len(channel) is %d' % (lab, total, n),
                                 path='data_chunks'))
            except Exception:
                res.skipped_ops += 1
        try:
            with warnings.catch_warnings():
                warnings.simplefilter('ignore')
                with np.errstate(all='ignore'):
                    cnt = sum(1 for _ in c)
            res.compared += 1
            if cnt != n:
                out.append(V('C14.length', '%s: iteration yields %d values, len(channel) is %d' % (lab, cnt, n), path='iteration'))
        except Exception:
            res.skipped_ops += 1
        if mode.startswith('lazy'):
            g, cn = w.names[path]
            for k, chunk in enumerate(file_chunks[:6]):
                try:
                    cc = chunk[g][cn]
                except Exception:
                    continue
                if len(cc) == 0:
                    res.probe('file-chunk-without-channel')
                attempt('TdmsFile.data_chunks()[%d][:]' % k, lambda: cc[:])
        if got_empty and got_full:
            res.nontrivial = True
    return out


def execute(case):
    import random
    res = Result()
    spec = case['spec']
    w = build(spec)
    kinds = []
    for path, ch in w.chans.items():
        props = w.props.get(path, {})
        st = [v[1] for k, v in props.items() if k.endswith('_Scale_Type')]
        kinds.append((ch.type, sorted(st)))
        for s in st:
            if s in ('RTD', 'Thermocouple', 'Thermistor', 'Strain'):
                res.probe('sensor:' + s)
        if ch.type == 'f32' and 'Linear' in st:
            res.probe('float32-linear')
        if ch.type == 'daqmx':
            res.probe('daqmx')
    res.sig = [sorted(kinds, key=str), len(spec['segments'])]
    with store(record=False) as st_:
        st_.put('w.tdms', w.data if case.get('cut') is None else w.data[:case['cut']])
        if case.get('cut') is not None:
            res.probe('truncated-final-chunk')
        try:
            kw = {'memmap_dir': st_.realdir()} if case.get('memmap') else {}
            if kw:
                res.probe('memmap')
            eager = lib.TdmsFile.read(st_.source('simstream', 'w.tdms'), raw_timestamps=case['raw_ts'], **kw)
            lazy = lib.TdmsFile.open(st_.source('simstream', 'w.tdms'), raw_timestamps=case['raw_ts'], **kw)
        except Exception as exc:
            res.skipped_ops += 1
            return res
        try:
            res.violations += monitor(eager, w, 'eager', case['raw_ts'], random.Random(case['op_seed']), res)
            res.violations += monitor(lazy, w, 'lazy', case['raw_ts'], random.Random(case['op_seed'] + 1), res)
            if case.get('edit') and not res.violations:
                res.probe('caller-edited-properties')
                for tf in (eager, lazy):
                    if case['edit'] == 'channels-list':
                        # the caller collects all channels in the list one group handed out (chs = g.channels(); chs += ...)
                        groups = tf.groups()
                        if groups:
                            lst = groups[0].channels()
                            for g in groups[1:]:
                                lst += g.channels()
                        continue
                    for g in tf.groups():
                        for c in g.channels():
                            if case['edit'] == 'status':
                                c.properties['NI_Scaling_Status'] = 'scaled'
                            else:
                                c.properties.update({'NI_Number_Of_Scales': 1, 'NI_Scale[0]_Scale_Type': 'Linear',
                                                     'NI_Scale[0]_Linear_Slope': 2.0, 'NI_Scale[0]_Linear_Y_Intercept': 1.0,
                                                     'NI_Scale[0]_Linear_Input_Source': 0xFFFFFFFF})
                                c.properties.pop('NI_Scaling_Status', None)
                res.violations += monitor(eager, w, 'eager (after the caller edited channel properties)', case['raw_ts'],
                                          random.Random(case['op_seed'] + 2), res)
                res.violations += monitor(lazy, w, 'lazy (after the caller edited channel properties)', case['raw_ts'],
                                          random.Random(case['op_seed'] + 3), res)
        finally:
            lazy.close()
    res.steps = res.compared
    res.ev('violations', [v.as_dict() for v in res.violations][:20])
    return res


def shrink_candidates(case):
    from ..shrink import spec_candidates
    if case['raw_ts']:
        c = dict(case)
        c['raw_ts'] = False
        yield c
    if case.get('edit'):
        c = dict(case)
        c['edit'] = None
        yield c
    for sp in spec_candidates(case['spec']):
        c = dict(case)
        c['spec'] = sp
        yield c


def sample(case):
    w = build(case['spec'])
    return {'channels': [(p, ch.type, ch.count, sorted(v[1] for k, v in w.props.get(p, {}).items() if k.endswith('_Scale_Type')))
                         for p, ch in w.chans.items()], 'raw_timestamps': case['raw_ts']}
