"""C09 - a matching index file is transparent.

Two-file worlds on the simulated (and real) file system: index absent / produced by the stub
encoder / produced by TdmsWriter(index_file=True); consumers read, open, read_metadata and
index-only; plus the crash variant 'data file cut inside the last segment, index complete'."""
import os

from .. import gen, lib, ops, wgen, wexec
from ..backends import store
from ..simfs import SIM_ROOT
from ..compare import V
from ..core import Result, digest
from ..world import build
from . import _lazy
from .c01 import shape_sig
from .c08 import prog_sig

PROP = 'C09'
LEVEL = 'exploration'
N = {'quick': 22000, 'thorough': 1000000}
RULE = ('seeded two-file worlds: data file from the stub encoder (metadata-less segments, padding, 100+ segments, '
        'both byte orders) or from TdmsWriter; index from the stub encoder or from TdmsWriter(index_file=True); '
        'storage = SimFS paths (index discovered through the os.path.isfile seam) or real paths; 25% of stub worlds '
        'cut the data file inside its last segment while the index stays complete. For each world: read / open '
        '(+ windows, chunk stream) / read_metadata with and without the index must give identical objects, '
        'properties, lengths, dtypes and data; the index alone (path and TDSh stream) gives the same metadata and '
        'refuses data reads. distinct = (segment shapes | program shape, index producer, backend, cut class); '
        'non-trivial = a channel with >= 1 value was compared with and without index')
EXPECTED_PROBES = ['index-older-or-newer', 'descriptor-limit', 'names-changed-after-open', 'stub-index', 'writer-index', 'cut-data-complete-index', 'padding', 'segment-without-metadata',
                   'index-only-path', 'index-only-stream', 'realpath', 'symbolic-links']


def opts(tier):
    o = gen.Opts()
    o.max_segments = 6
    o.max_channels = 4
    o.many_segments_p = 0.02
    o.pad_p = 0.15
    o.unknown_offset_p = 0.15
    return gen.deepen(o, tier)


def generate(rng, tier):
    if rng.random() < 0.02:
        # the pair a writer session without any write_segment call leaves behind (files created, nothing logged yet): an empty
        # data file and an empty index file
        src = {'kind': 'empty'}
        cut = None
    elif rng.random() < 0.3:
        src = {'kind': 'writer', 'program': wgen.gen_program(rng)}
        cut = None
    else:
        from .c11 import maybe_daqmx_world
        spec = maybe_daqmx_world(rng, 0.1)
        if spec is None:
            spec, w, _ = gen.gen_world(rng, opts(tier))
        else:
            w = build(spec)
        src = {'kind': 'stub', 'spec': spec}
        cut = None
        last = w.segs[-1]
        if rng.random() < 0.25 and last.end - last.pos > 2:
            cut = rng.randint(last.pos + 1, last.end - 1)
    return {'source': src, 'backend': rng.choice(['simpath', 'simpath', 'realpath']), 'cut': cut, 'pathlib': rng.random() < 0.3,
            # after TdmsFile.open returned, the directory entries are moved away ('rename') or other files are put under the
            # same names ('replace'): an open file is what was opened, whatever its name designates later
            'after_open': rng.choice([None] * 8 + ['rename', 'replace']),
            # a process that keeps several files open works close to its descriptor limit: the index file must not cost a
            # descriptor for longer than it is being read
            'fd_limit': rng.random() < 0.08,
            # file-system times: the index is much older / newer than the data file (copied first, restored from a backup)
            'index_age': rng.choice([None] * 8 + [-3600.0, 7200.0]),
            # both names are symbolic links into a content-addressed store whose entries carry no suffix
            'linked': rng.random() < 0.1,
            'raw_ts': rng.random() < 0.4, 'win_seed': rng.getrandbits(32), 'debug_log': rng.random() < 0.05}


def pnorm(v):
    return repr(ops.norm(v) if not isinstance(v, (int, float, str, bool)) else (type(v).__name__, v))


def snapshot(tf, mode, win_rng=None):
    """Everything C09 compares, in comparable form."""
    out = {'groups': [g.name for g in tf.groups()], 'props': {'/': sorted((k, pnorm(v)) for k, v in tf.properties.items())},
           'len': {}, 'dtype': {}, 'data': {}, 'windows': {}, 'chunks': {}}
    for g in tf.groups():
        out['props'][g.path] = sorted((k, pnorm(v)) for k, v in g.properties.items())
        for c in g.channels():
            out['props'][c.path] = sorted((k, pnorm(v)) for k, v in c.properties.items())
            out['len'][c.path] = len(c)
            try:
                out['dtype'][c.path] = str(c.dtype)
            except Exception as exc:
                out['dtype'][c.path] = 'exc:' + type(exc).__name__
            if mode == 'read_metadata':
                continue
            try:
                out['data'][c.path] = ops.norm(c[:])
            except Exception as exc:
                out['data'][c.path] = ('exc', type(exc).__name__)
            if mode == 'open':
                n = len(c)
                for _ in range(2):
                    off = win_rng.randint(0, n + 1)
                    ln = win_rng.choice([None, win_rng.randint(0, n + 1)])
                    try:
                        out['windows']['%s|%d|%s' % (c.path, off, ln)] = ops.norm(c.read_data(off, ln))
                    except Exception as exc:
                        out['windows']['%s|%d|%s' % (c.path, off, ln)] = ('exc', type(exc).__name__)
                try:
                    out['chunks'][c.path] = [(ck.offset, ops.norm(ck[:])) for ck in c.data_chunks()]
                except Exception as exc:
                    out['chunks'][c.path] = ('exc', type(exc).__name__)
    return out


def open_mode(mode, src, raw_ts):
    if mode == 'read':
        return lib.TdmsFile.read(src, raw_timestamps=raw_ts)
    if mode == 'open':
        return lib.TdmsFile.open(src, raw_timestamps=raw_ts)
    return lib.TdmsFile.read_metadata(src, raw_timestamps=raw_ts)


def move_entries(st, real, with_index, how, data):
    names = ['w.tdms'] + (['w.tdms_index'] if with_index else [])
    for n in names:
        if real:
            os.rename(os.path.join(st.realdir(), n), os.path.join(st.realdir(), 'moved-' + n))
        else:
            st.fs.rename(n, 'moved-' + n)
    if how == 'replace':
        # another, well-formed but different file under the old name: the same bytes with every raw-data byte inverted
        # would need the layout; a file that merely starts like a TDMS file is enough to tell whose data is returned
        other = bytes(data[:28]) + bytes(255 - b for b in data[28:])
        if real:
            with open(os.path.join(st.realdir(), 'w.tdms'), 'wb') as f:
                f.write(other)
        else:
            st.fs.put('w.tdms', other)


def restore_entries(st, real, with_index):
    names = ['w.tdms'] + (['w.tdms_index'] if with_index else [])
    for n in names:
        if real:
            os.replace(os.path.join(st.realdir(), 'moved-' + n), os.path.join(st.realdir(), n))
        else:
            st.fs.files.pop(n, None)
            st.fs.rename('moved-' + n, n)


def execute(case):
    import random
    res = Result()
    src = case['source']
    raw_ts = case['raw_ts']
    backend = case['backend']
    res.backend = backend
    if backend == 'realpath':
        res.probe('realpath')
    with store(record=False) as st, lib.knobs(debug_log=case.get('debug_log', False)):
        # ---- materialise data + index
        if src['kind'] == 'empty':
            data, index = b'', b''
            res.sig = ['empty-pair', backend]
            res.probe('empty-file-pair')
            res.nontrivial = True
        elif src['kind'] == 'stub':
            w = build(src['spec'])
            data, index = w.data, w.index
            from .c04 import _sig
            res.sig = ['stub', _sig(src['spec']), backend, case['cut'] is not None]
            if any(sg.get('layout') == 'daqmx' for sg in src['spec']['segments']):
                res.probe('daqmx-world')
            res.probe('stub-index')
            if any(s.get('pad') for s in src['spec']['segments']):
                res.probe('padding')
            if any(not s.has_meta for s in w.segs):
                res.probe('segment-without-metadata')
            if case['cut'] is not None:
                data = data[:case['cut']]
                res.probe('cut-data-complete-index')
                res.fault('crash')
        else:
            try:
                tr = wexec.run_program(st, src['program'], 'simpath', True, name='prod.tdms')
            except Exception as exc:
                res.skipped_ops += 1
                res.ev('writer-raises', type(exc).__name__)
                return res
            data, index = tr.data, tr.index
            res.sig = ['writer', prog_sig(src['program']), backend]
            res.probe('writer-index')
            st.remove('prod.tdms')
            st.remove('prod.tdms_index')
            if not data:
                res.skipped_ops += 1
                return res
        real = backend == 'realpath'
        snaps = {}
        for with_index in (False, True):
            st.remove('w.tdms')
            st.remove('w.tdms_index')
            put = st.put_linked if case.get('linked') else st.put
            if case.get('linked'):
                res.probe('symbolic-links')
            put('w.tdms', data, real=real)
            if with_index:
                put('w.tdms_index', index, real=real)
                if case.get('index_age') is not None:
                    res.probe('index-older-or-newer')
                    if real:
                        t = os.path.getmtime(os.path.join(st.realdir(), 'w.tdms'))
                        os.utime(os.path.join(st.realdir(), 'w.tdms_index'), (t + case['index_age'], t + case['index_age']))
                    else:
                        st.fs.mtimes[st.fs.resolve('w.tdms_index')] = 1700000000.0 + case['index_age']
            path = os.path.join(st.realdir(), 'w.tdms') if real else SIM_ROOT + 'w.tdms'
            if case.get('pathlib'):
                import pathlib
                path = pathlib.Path(path)
                res.probe('pathlib-path')
            for mode in ('read', 'open', 'read_metadata'):
                win_rng = random.Random(case['win_seed'])
                kept = []
                try:
                    if mode == 'open' and case.get('fd_limit') and not real:
                        # two more handles on the same file stay open; room for exactly one transient descriptor more
                        res.probe('descriptor-limit')
                        st.fs.max_open = 4
                        kept = [open_mode('open', path, raw_ts), open_mode('open', path, raw_ts)]
                    tf = open_mode(mode, path, raw_ts)
                except Exception as exc:
                    snaps[(with_index, mode)] = ('exc', type(exc).__name__, str(exc)[:100])
                    for k_ in kept:
                        k_.close()
                    st.fs.max_open = None
                    continue
                moved = False
                if mode == 'open' and case.get('after_open'):
                    moved = True
                    res.probe('names-changed-after-open')
                    move_entries(st, real, with_index, case['after_open'], data)
                try:
                    snaps[(with_index, mode)] = snapshot(tf, mode, win_rng)
                finally:
                    tf.close()
                    for k_ in kept:
                        k_.close()
                    st.fs.max_open = None
                    if moved:
                        restore_entries(st, real, with_index)
                res.steps += 1
            if not real:
                leaked = [h for h in st.fs.leaked()]
                if leaked:
                    res.violations.append(V('C09.index-handle-open', 'handles still open after close(): %r' % leaked))
        for mode in ('read', 'open', 'read_metadata'):
            a, b = snaps[(False, mode)], snaps[(True, mode)]
            res.compared += 1
            if isinstance(a, dict) and any(_lazy.full_len(v) > 0 for v in a['data'].values() if v[0] in ('arr', 'strs', 'rawts')):
                res.nontrivial = True
            if a != b:
                if isinstance(a, tuple) or isinstance(b, tuple):
                    detail = 'without index: %s; with index: %s' % (a if isinstance(a, tuple) else 'ok', b if isinstance(b, tuple) else 'ok')
                    what = 'raises'
                else:
                    what = [k for k in a if a[k] != b[k]][0]
                    bad = [p for p in a[what] if a[what].get(p) != b[what].get(p)] if isinstance(a[what], dict) else []
                    detail = '%s%s: without index %s, with index %s' % (what, bad[:2], _lazy._short(a[what].get(bad[0]) if bad else a[what]),
                                                                        _lazy._short(b[what].get(bad[0]) if bad else b[what]))
                res.violations.append(V('C09.index-changes-result', 'TdmsFile.%s: %s' % (mode, detail), mode=mode, what=str(what)))
        # ---- index only
        ref = snaps[(False, 'read_metadata')]
        marker = src['kind'] == 'stub' and src['spec']['segments'][-1].get('next_offset') == 'unknown'
        if marker:
            # don't-care: with the 'length unknown' marker the lengths of the last segment cannot be known from the
            # index alone (today the library raises TypeError there); index-only is judged for complete files
            res.probe('marker-skips-index-only')
        if isinstance(ref, dict) and case['cut'] is None:
            st.remove('w.tdms')
            (st.put_linked if case.get('linked') else st.put)('only.tdms_index', index, real=real)
            ipath = os.path.join(st.realdir(), 'only.tdms_index') if real else SIM_ROOT + 'only.tdms_index'
            if case.get('pathlib'):
                import pathlib
                ipath = pathlib.Path(ipath)
            for kind in ('path', 'stream'):
                if kind == 'stream' and src['kind'] == 'empty':
                    continue        # an empty stream has no tag by which it could be told to be an index file: not judged
                for mode in ('read', 'open', 'read_metadata'):
                    src_ = ipath if kind == 'path' else st.fs.stream('only.tdms_index')
                    res.probe('index-only-' + kind)
                    try:
                        tf = open_mode(mode, src_, raw_ts)
                    except Exception as exc:
                        if marker:
                            continue        # don't-care (see above): refusing to open is accepted there
                        res.violations.append(V('C09.index-only-raises', 'TdmsFile.%s(index %s): %s: %s' % (
                            mode, kind, type(exc).__name__, exc), mode=mode))
                        continue
                    try:
                        got = snapshot(tf, 'read_metadata')
                        for k in ('groups', 'props', 'len', 'dtype'):
                            if marker and k == 'len':
                                continue    # lengths of a 'length unknown' segment cannot come from the index alone
                            if got[k] != ref[k]:
                                bad = [p for p in ref[k] if ref[k].get(p) != got[k].get(p)] if isinstance(ref[k], dict) else []
                                res.violations.append(V('C09.index-only-metadata', 'TdmsFile.%s(index %s): %s%s differs: %s vs data '
                                                        'file %s' % (mode, kind, k, bad[:2], _lazy._short(got[k].get(bad[0]) if bad else got[k]),
                                                                     _lazy._short(ref[k].get(bad[0]) if bad else ref[k])), what=k))
                        for g in tf.groups():
                            for c in g.channels():
                                if len(c) == 0:
                                    continue
                                for name, fn in (('[:]', lambda: c[:]), ('read_data()', lambda: c.read_data()),
                                                 ('iteration', lambda: list(c)), ('[-1]', lambda: c[-1]), ('[1:]', lambda: c[1:]),
                                                 ('[0]', lambda: c[0]), ('data_chunks', lambda: [x[:] for x in c.data_chunks()]),
                                                 ('read_data(scaled=False)', lambda: c.read_data(scaled=False))):
                                    r, exc, eo = ops.try_op(fn)
                                    res.compared += 1
                                    if exc is None:
                                        nr = ops.norm(r)
                                        if nr[0] in ('arr', 'strs', 'rawts') and _lazy.full_len(nr) == 0:
                                            continue          # an empty result needs no data and is not data
                                        if nr[0] == 'list' and not nr[1]:
                                            continue
                                        res.violations.append(V('C09.index-only-returns-data', 'TdmsFile.%s(index %s): %s%s returned %s '
                                                                'instead of raising' % (mode, kind, c.path, name, _lazy._short(ops.norm(r))),
                                                                access=name))
                                break
                    finally:
                        tf.close()
    res.ev('snaps', digest({str(k): v for k, v in snaps.items()}))
    return res


def shrink_candidates(case):
    from ..shrink import spec_candidates
    for k, v in (('backend', 'simpath'), ('raw_ts', False)):
        if case[k] != v:
            c = dict(case)
            c[k] = v
            yield c
    if case['source']['kind'] == 'stub':
        if case['cut'] is None:
            for sp in spec_candidates(case['source']['spec']):
                c = dict(case)
                c['source'] = {'kind': 'stub', 'spec': sp}
                yield c
    elif case['source']['kind'] == 'writer':
        from .c08 import shrink_candidates as sc
        for c2 in sc({'program': case['source']['program'], 'sink': 'simpath', 'index': True}):
            c = dict(case)
            c['source'] = {'kind': 'writer', 'program': c2['program']}
            yield c


def sample(case):
    s = case['source']
    from .c04 import _sig
    if s['kind'] == 'empty':
        return {'source': 'empty', 'backend': case['backend']}
    return {'source': s['kind'], 'shape': _sig(s['spec']) if s['kind'] == 'stub' else prog_sig(s['program']),
            'backend': case['backend'], 'cut': case['cut']}
