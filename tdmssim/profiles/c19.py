"""C19 - partial reads touch only the part of the file they need.

A monitoring property on the storage seam: the I/O events issued between the start and the end
of each op on a lazily opened SimFile are checked against the byte set the request may touch
(from the reference model's provenance table)."""
import numpy as np

from .. import gen, lib, ops
from ..backends import store
from ..compare import V
from ..core import Result, digest
from ..world import build
from . import _lazy
from .c01 import shape_sig

PROP = 'C19'
LEVEL = 'exploration'
N = {'quick': 22000, 'thorough': 2000000}
RULE = ('seeded worlds biased to many chunks / segments and channels absent from some segments; per world a '
        'history of read_data windows, slices (incl. negative steps) and integer indices (with repeated indices '
        'into the same chunk) on one lazily opened recording stream; every read()/readinto() event of each op is '
        'checked against the allowed byte set: the requested channel\'s extents (contiguous) or whole chunk extents '
        '(interleaved / DAQmx) of the chunks overlapping the request + the lead-in (28 bytes; today only its 4 tag bytes '
        'are read) of each segment between the first and last segment holding requested data. distinct = (segment shapes, op kinds); non-trivial = '
        'a non-empty window over a channel with >= 2 chunks was monitored')
EXPECTED_PROBES = ['index-from-another-thread', 'repeat-index-same-chunk', 'window-subset-of-chunks', 'interleaved-window', 'string-window', 'daqmx-window']


def opts(tier):
    o = gen.Opts()
    o.max_segments = 8
    o.max_channels = 4
    o.props = False
    o.huge_p = 0.004
    o.max_chunks = 6
    o.many_segments_p = 0.02
    o.p_none = 0.25
    o.long_run_p = 0.006
    o.short_last_p = 0.08
    o.declared_huge_p = 0.01
    o.equal_shapes_p = 0.25

    def scaling(rng, spec, ctype):
        if rng.random() < 0.2:
            from .c13 import add_scaling
            add_scaling(rng, spec, ctype, p=0.6)      # the one-chunk cache then holds scaled chunks
    o.scaling = scaling
    return gen.deepen(o, tier)


def generate(rng, tier):
    o = opts(tier)
    from .c11 import maybe_daqmx_world
    spec = maybe_daqmx_world(rng, 0.1)
    if spec is None:
        spec, w, _ = gen.gen_world(rng, o)
    else:
        w = build(spec)
    reqs = _lazy.gen_requests(rng, w, 'quick', per_channel=12)
    for r in reqs:
        if r['op'] == 'read_data' and w.chans[r['ch']].type == 'daqmx':
            r['scaled'] = False
    reqs = [r for r in reqs if not (r['op'] == 'slice' and r['step'] == 0)]
    if len(reqs) > 60:
        reqs = rng.sample(reqs, 60)
    # repeated integer indices into the chunk just read
    out = []
    for r in reqs:
        out.append(r)
        if r['op'] == 'index' and rng.random() < 0.6:
            ch = w.chans[r['ch']]
            n = ch.count
            i = r['i'] + n if r['i'] < 0 else r['i']
            if 0 <= i < n:
                for (k, c, first, cnt, _e, _ce) in ch.prov:
                    if first <= i < first + cnt:
                        j = rng.randint(first, first + cnt - 1)
                        out.append({'op': 'index', 'ch': r['ch'], 'i': j if rng.random() < 0.7 else j - n,
                                    # issued from another thread that runs to completion (no concurrency: one after the other)
                                    'thread': rng.random() < 0.3,
                                    # the channel object is copied in between (frameworks copy or pickle what they are handed);
                                    # the copy is thrown away
                                    'copied': rng.random() < 0.15,
                                    # simulated seconds the caller lets pass before it asks again (think time, a GUI, a
                                    # polling loop); now and then the wall clock is set back in between
                                    'think': rng.choice([None] * 5 + [0.5, 2.0, 400.0, 90000.0, -3600.0])})
    # walking through a channel value by value, in order
    scan = [p for p, ch in w.chans.items() if 4 <= len(ch.prov) and 0 < ch.count <= 80 and ch.type is not None]
    if scan and rng.random() < 0.15:
        p = rng.choice(scan)
        out += [{'op': 'index', 'ch': p, 'i': i, 'scan': True} for i in range(w.chans[p].count)]
    cut = None
    last = w.segs[-1]
    if (last.layout != 'daqmx' and last.end - last.data_pos > 1 and not spec['segments'][-1].get('short_last')
            and rng.random() < 0.1):
        cut = rng.randint(last.data_pos + 1, last.end - 1)     # a file cut short by a crash: the bound must still hold
    return {'spec': spec, 'raw_ts': rng.random() < 0.3, 'ops': out, 'debug_log': rng.random() < 0.05, 'cut': cut}


def merge(iv):
    iv = sorted(iv)
    out = []
    for a, b in iv:
        if out and a <= out[-1][1]:
            out[-1][1] = max(out[-1][1], b)
        else:
            out.append([a, b])
    return out


def request_window(n, op):
    """(lo, hi, empty_anchor_points) of the contiguous window the op asks for."""
    ex = ops.expected_indices(n, op)
    if ex is None or ex[0] == 'exc':
        return None
    if ex[0] == 'idx1':
        return ex[1], ex[1] + 1, []
    idx = ex[1]
    if len(idx) == 0:
        pts = []
        if op['op'] == 'read_data':
            pts = [op['offset']]
        else:
            for v in (op['start'], op['stop']):
                if v is not None:
                    pts += [v if v >= 0 else v + n]
        return 0, 0, [p + d for p in pts for d in (-1, 0, 1)]
    if op['op'] == 'slice':
        # the request is the contiguous range the slice spans before striding
        a, b, st = slice(op['start'], op['stop'], op['step']).indices(n)
        return (a, b, []) if st > 0 else (b + 1, a + 1, [])
    return int(min(idx)), int(max(idx)) + 1, []


def allowed_bytes(w, ch, lo, hi, anchors):
    iv = []
    segs = []
    for (k, c, first, cnt, extents, chunk_extent) in ch.prov:
        hit = first < hi and lo < first + cnt
        if not hit and anchors:
            hit = any(first <= p < first + cnt for p in anchors)
        if hit:
            s = w.segs[k]
            if s.layout == 'contiguous':
                iv += [tuple(e) for e in extents]
            else:
                iv.append(tuple(chunk_extent))
            segs.append(k)
    if segs:
        for k in range(min(segs), max(segs) + 1):
            # "a constant number of bytes per segment touched": today the 4-byte tag; the whole 28-byte lead-in is allowed
            iv.append((w.segs[k].pos, w.segs[k].pos + 28))
    return merge(iv)


def outside(reads, iv):
    bad = 0
    first = None
    for pos, got in reads:
        a, b = pos, pos + got
        ok = any(x <= a and b <= y for x, y in iv)
        if not ok:
            # count the bytes not covered
            covered = sum(max(0, min(b, y) - max(a, x)) for x, y in iv)
            bad += (b - a) - covered
            if first is None:
                first = (pos, got)
    return bad, first


def in_thread(fn):
    """Runs fn in a fresh thread and waits for it: the calling thread is idle meanwhile, so nothing is concurrent."""
    import threading
    box = {}

    def run():
        try:
            box['value'] = fn()
        except BaseException as exc:       # noqa: re-raised in the caller
            box['exc'] = exc
    t = threading.Thread(target=run)
    t.start()
    t.join()
    if 'exc' in box:
        raise box['exc']
    return box.get('value')


def execute(case):
    res = Result()
    spec = case['spec']
    w = build(spec)
    from .c04 import _sig
    res.sig = [_sig(spec), sorted(set(o['op'] for o in case['ops']))]
    with store(record=True) as st, lib.knobs(debug_log=case.get('debug_log', False)):
        cut = case.get('cut')
        st.put('w.tdms', w.data if cut is None else w.data[:cut])
        if cut is not None:
            res.probe('truncated-file')
            res.fault('crash')
        try:
            tf = lib.TdmsFile.open(st.source('simstream', 'w.tdms'), raw_timestamps=case['raw_ts'])
        except Exception as exc:
            res.skipped_ops += len(case['ops'])
            res.ev('open-raises', type(exc).__name__)
            return res
        prev = None      # (channel, (seg, chunk)) served by the immediately preceding index op
        try:
            for i, op in enumerate(case['ops']):
                ch = w.chans[op['ch']]
                n = ch.count
                if cut is not None:
                    try:
                        n = len(ops.chan(tf, w, op['ch']))      # what the request is relative to in a truncated file
                    except Exception:
                        res.skipped_ops += 1
                        continue
                mark = st.fs.mark()
                op_ = {k: v for k, v in op.items() if k not in ('thread', 'copied', 'scan', 'think')}
                if op.get('think'):
                    res.probe('think-time')
                    if op['think'] > 0:
                        st.fs.clock.advance(op['think'])
                    else:
                        st.fs.clock.step_wall(op['think'])
                        st.fs.clock.advance(1.0)
                if op.get('scan'):
                    res.probe('ascending-index-scan')
                if op.get('copied'):
                    import copy
                    try:
                        copy.copy(ops.chan(tf, w, op['ch']))
                        res.probe('channel-copied-in-between')
                    except Exception:
                        pass
                    mark = st.fs.mark()
                if op.get('thread'):
                    res.probe('index-from-another-thread')
                    got, exc, eo = ops.try_op(lambda: in_thread(lambda: ops.do_op(tf, w, op_)))
                else:
                    got, exc, eo = ops.try_op(lambda: ops.do_op(tf, w, op_))
                reads = st.fs.reads_since(mark)
                calls = st.fs.read_calls_since(mark)
                res.steps += 1
                win = request_window(n, op)
                this = None
                if op['op'] == 'index' and win is not None:
                    for (k, c, first, cnt, _e, _ce) in ch.prov:
                        if first <= win[0] < first + cnt:
                            this = (op['ch'], (k, c))
                if exc is not None or win is None:
                    res.skipped_ops += 1
                    prev = this if exc is None else None
                    res.ev(i, 'skip', exc)
                    continue
                lo, hi, anchors = win
                iv = allowed_bytes(w, ch, lo, hi, anchors)
                bad, first_bad = outside(reads, iv)
                res.compared += 1
                nchunks = len(ch.prov)
                touched = sum(1 for p in ch.prov if p[2] < hi and lo < p[2] + p[3])
                if hi > lo and nchunks >= 2:
                    res.nontrivial = True
                    if touched < nchunks:
                        res.probe('window-subset-of-chunks')
                    if any(w.segs[p[0]].layout == 'interleaved' for p in ch.prov):
                        res.probe('interleaved-window')
                    if ch.type == 'str':
                        res.probe('string-window')
                    if ch.type == 'daqmx':
                        res.probe('daqmx-window')
                if bad:
                    res.violations.append(V(
                        'C19.reads-outside-request', '%s on %s (len %d): %d byte(s) fetched outside the chunks that overlap '
                        'the request [%d,%d); first such read at %s; allowed %s; %d bytes read in total' % (
                            {k: v for k, v in op.items() if k != 'ch'}, op['ch'], n, bad, lo, hi, first_bad, iv[:8],
                            sum(g for _p, g in reads)), op=op['op'], layout=[w.segs[p[0]].layout for p in ch.prov][:1]))
                if op['op'] == 'index' and prev is not None and this == prev:
                    res.probe('repeat-index-same-chunk')
                    if calls:
                        res.violations.append(V(
                            'C19.cached-index-reads', 'index %d on %s right after an index into the same chunk issued %d read '
                            'call(s)' % (op['i'], op['ch'], len(calls)), op='index'))
                prev = this
                res.ev(i, op['op'], len(reads), sum(g for _p, g in reads))
                if len(res.violations) > 3:
                    break
        finally:
            tf.close()
        res.io_events = st.fs.seq
    return res


def shrink_candidates(case):
    from ..shrink import spec_candidates, list_candidates
    for o in list_candidates(case['ops']):
        c = dict(case)
        c['ops'] = o
        yield c
    if case.get('cut') is not None:
        c = dict(case)
        c['cut'] = None
        yield c
    for sp in spec_candidates(case['spec']):
        c = dict(case)
        c['spec'] = sp
        c['ops'] = [o for o in case['ops'] if o['ch'] in sp['names']]
        yield c


def sample(case):
    from .c04 import _sig
    return {'segments': _sig(case['spec']), 'ops': case['ops'][:10], 'n_ops': len(case['ops'])}
