"""C10 - defragmenting a file preserves its content.

Composition of the whole reader with the whole writer through simulated storage (15% of the sources are
files cut short by a crash of their producer; otherwise fault-free):
source = stub-made or writer-made non-DAQmx world; destination = SimFS path / SimFile stream /
real path, with or without index."""
import io
import os

from .. import gen, lib, ops, wgen, wexec, parser, fmt
from ..backends import store
from ..compare import V
from ..core import Result, digest
from ..parser import Structural
from ..world import build
from . import _lazy
from .c01 import shape_sig
from .c08 import prog_sig
from .c09 import pnorm

PROP = 'C10'
LEVEL = 'exploration'
N = {'quick': 28000, 'thorough': 1500000}
RULE = ('seeded non-DAQmx source worlds (stub-made: fragmented over 1-6 segments, rarely 100+, empty / typeless / '
        'property-only channels, strings, timestamps over the full raw range, all property types, optional NI_Scale '
        'properties; or TdmsWriter-made; 15% cut short at a seeded byte offset, as a crashed producer leaves them) x source given as SimFS path / SimFile stream / BytesIO x destination SimFS '
        'path / SimFile stream / real path x index on/off x version; source and destination are read with '
        'raw_timestamps=True and compared: groups, channels, properties, lengths, bit-identical raw values, dtype '
        'when len >= 1, scaled data; destination parsed by the strict parser; descriptor accounting. distinct = '
        '(source shape, src kind, dst kind, index); non-trivial = a channel with >= 1 value was copied')
EXPECTED_PROBES = ['in-place', 'truncated-source', 'channel-over-1MiB', 'typeless-channel', 'empty-string-or-timestamp-channel', 'string-channel', 'timestamp-channel',
                   'scaled-channel', 'many-segments', 'dst-index', 'writer-made-source']


def opts(tier):
    o = gen.Opts()
    o.max_segments = 6
    o.max_channels = 4
    o.many_segments_p = 0.02
    o.ts_range = None
    o.typeless_p = 0.12
    o.huge_p = 0.01
    from .c13 import add_scaling
    o.scaling = lambda rng, spec, ctype: add_scaling(rng, spec, ctype, p=0.3)
    return gen.deepen(o, tier)


def generate(rng, tier):
    if rng.random() < 0.25:
        src = {'kind': 'writer', 'program': wgen.gen_program(rng)}
    else:
        spec, _w, _ = gen.gen_world(rng, opts(tier))
        src = {'kind': 'stub', 'spec': spec}
    return {'source': src, 'src_kind': rng.choice(['simpath', 'simstream', 'bytesio']),
            'dst_kind': rng.choice(['simpath', 'simstream', 'realpath']), 'index': rng.random() < 0.4,
            'version': rng.choice([4712, 4713]),
            # the source is a file a crashed producer left behind: cut at this fraction of its length (None: complete)
            'cut': rng.random() if rng.random() < 0.15 else None,
            # defragmenting in place: the destination path is the source path
            'inplace': rng.random() < 0.04,
            # the destination's device is full from this write event on (ENOSPC; a quota, a file size limit): defragment
            # may raise; if it returns normally the copy is complete
            'disk_full_at': rng.randint(0, 25) if rng.random() < 0.1 else None}


def content(tf):
    out = {'groups': sorted(g.name for g in tf.groups()), 'props': {'/': sorted((k, pnorm(v)) for k, v in tf.properties.items())},
           'len': {}, 'raw': {}, 'dtype': {}, 'scaled': {}, 'channels': {}}
    for g in tf.groups():
        out['props'][g.path] = sorted((k, pnorm(v)) for k, v in g.properties.items())
        out['channels'][g.name] = sorted(c.name for c in g.channels())
        for c in g.channels():
            out['props'][c.path] = sorted((k, pnorm(v)) for k, v in c.properties.items())
            out['len'][c.path] = len(c)
            try:
                raw = c.read_data(scaled=False)
                out['raw'][c.path] = ops.norm(raw)
                out['dtype'][c.path] = str(getattr(raw, 'dtype', None)) if len(c) else None
            except Exception as exc:
                out['raw'][c.path] = ('exc', type(exc).__name__)
            try:
                out['scaled'][c.path] = ops.norm(c[:])
            except Exception as exc:
                out['scaled'][c.path] = ('exc', type(exc).__name__, str(exc)[:60])
    return out


def execute(case):
    res = Result()
    src = case['source']
    with store(record=False) as st:
        if src['kind'] == 'stub':
            w = build(src['spec'])
            data = w.data
            res.sig = ['stub', shape_sig(src['spec']), case['src_kind'], case['dst_kind'], case['index']]
            if len(w.segs) > 50:
                res.probe('many-segments')
            for ch in w.chans.values():
                if ch.type not in (None, 'str', 'daqmx') and ch.count * fmt.size_of(ch.type) > 2**20:
                    res.probe('channel-over-1MiB')
                if ch.type is None:
                    res.probe('typeless-channel')
                elif ch.type in ('str', 'ts') and ch.count == 0:
                    res.probe('empty-string-or-timestamp-channel')
                if ch.type == 'str' and ch.count:
                    res.probe('string-channel')
                if ch.type == 'ts' and ch.count:
                    res.probe('timestamp-channel')
        else:
            try:
                tr = wexec.run_program(st, src['program'], 'bytesio', False, name='prod.tdms')
            except Exception as exc:
                res.skipped_ops += 1
                return res
            data = tr.data
            res.probe('writer-made-source')
            res.sig = ['writer', prog_sig(src['program']), case['src_kind'], case['dst_kind'], case['index']]
            if not data:
                res.skipped_ops += 1
                return res
        if case.get('cut') is not None and len(data) > 8:
            data = data[:4 + int(case['cut'] * (len(data) - 4))]
            res.probe('truncated-source')
            res.fault('crash')
        st.put('src.tdms', data)
        try:
            ref = content(lib.TdmsFile.read(io.BytesIO(data), raw_timestamps=True))
        except Exception as exc:
            res.skipped_ops += 1          # an unreadable source is not C10's business
            res.ev('source-unreadable', type(exc).__name__)
            return res
        if any(v and v[0] not in ('exc',) and ref['raw'].get(p) != v and v[0] == 'arr' for p, v in ref['scaled'].items()):
            res.probe('scaled-channel')
        # ---- run defragment
        source = st.source(case['src_kind'], 'src.tdms')
        inplace = bool(case.get('inplace'))
        if inplace:
            source = st.source('simpath', 'src.tdms')
            dest = source
            index = case['index']
            res.probe('in-place')
        elif case['dst_kind'] == 'simpath':
            from ..simfs import SIM_ROOT
            dest = SIM_ROOT + 'dst.tdms'
            index = case['index']
        elif case['dst_kind'] == 'realpath':
            dest = os.path.join(st.realdir(), 'dst.tdms')
            index = case['index']
        else:
            dest = st.fs.stream('dst.tdms', 'w+b')
            index = st.fs.stream('dst.tdms_index', 'w+b') if case['index'] else False
        if case['index']:
            res.probe('dst-index')
        before = len(st.fs.handles)
        full_at = case.get('disk_full_at')
        if full_at is not None and case['dst_kind'] != 'realpath':
            st.fs.fail_writes = set(range(st.fs.write_events + full_at, st.fs.write_events + full_at + 10000))
        try:
            try:
                lib.TdmsWriter.defragment(source, dest, version=case['version'], index_file=index)
            finally:
                fired = st.fs.faults_fired.get('enospc', 0)
                st.fs.fail_writes = None
                if fired:
                    res.fault('enospc', fired)
        except Exception as exc:
            if fired and isinstance(exc, OSError):
                # the device was full: an error is the right answer (what is left of the destination is not judged)
                res.probe('disk-full:defragment-raised')
                return res
            kinds = sorted(set((str(ch.type), ch.count == 0) for ch in w.chans.values())) if src['kind'] == 'stub' else []
            res.violations.append(V('C10.defragment-raises', '%s: %s (channel kinds %s)' % (type(exc).__name__, exc, kinds[:6]),
                                    exc=type(exc).__name__, typeless=any(k[0] == 'None' for k in kinds),
                                    empty_str_ts=any(k[0] in ('str', 'ts') and k[1] for k in kinds)))
            return res
        res.steps += 1
        # descriptors: everything the library opened is closed, caller streams untouched
        leaked = st.fs.leaked()
        if leaked:
            res.violations.append(V('C10.handle-leak', 'library-owned handles still open after defragment: %r' % leaked))
        fc = st.fs.foreign_closed()
        if fc:
            res.violations.append(V('C10.caller-stream-closed', 'defragment closed caller streams: %r' % fc))
        try:
            if case['dst_kind'] == 'realpath' and not inplace:
                with open(dest, 'rb') as f:
                    out = f.read()
                iout = None
                if case['index']:
                    with open(dest + '_index', 'rb') as f:
                        iout = f.read()
            elif inplace:
                out = st.fs.get('src.tdms')
                iout = st.fs.get('src.tdms_index') if case['index'] else None
            else:
                out = st.fs.get('dst.tdms')
                iout = st.fs.get('dst.tdms_index') if case['index'] else None
        except (KeyError, FileNotFoundError) as exc:
            res.violations.append(V('C10.destination-missing', 'defragment returned normally but the destination%s does not exist: %s' % (
                ' (or its index file)' if case['index'] else '', exc)))
            return res
        try:
            got = content(lib.TdmsFile.read(io.BytesIO(out), raw_timestamps=True))
        except Exception as exc:
            res.violations.append(V('C10.destination-unreadable', '%s: %s' % (type(exc).__name__, exc), exc=type(exc).__name__))
            return res
        if any(n for n in ref['len'].values()):
            res.nontrivial = True
        for k in ('groups', 'channels', 'props', 'len', 'raw', 'scaled'):
            res.compared += 1
            if got[k] != ref[k]:
                bad = [p for p in ref[k] if ref[k].get(p) != got[k].get(p)] if isinstance(ref[k], dict) else []
                if k in ('raw', 'scaled'):
                    # empty channels may lose their type: only emptiness is compared for them
                    bad = [p for p in bad if not (ref['len'].get(p) == 0 and got['len'].get(p) == 0)]
                    if not bad:
                        continue
                res.violations.append(V('C10.content-differs', '%s%s: source %s, copy %s' % (
                    k, bad[:2], _lazy._short(ref[k].get(bad[0]) if bad else ref[k]),
                    _lazy._short(got[k].get(bad[0]) if bad else got[k])), what=k))
        if src['kind'] == 'stub' and case.get('cut') is None:
            # the source's content is also known independently of the reader (the world model): the copy must hold
            # what the source file encodes, not merely what the reader makes of the source
            for p, ch in w.chans.items():
                if ch.type in (None, 'daqmx'):
                    continue
                exp = _lazy.model_full(ch, True)
                g_ = got['raw'].get(p)
                res.compared += 1
                if g_ is None:
                    res.violations.append(V('C10.copy-differs-from-source-file', '%s is missing in the copy' % p, what='raw'))
                elif g_[0] in ('arr', 'strs', 'rawts') and not (_lazy.full_len(exp) == 0 and _lazy.full_len(g_) == 0) \
                        and not ops.agree(g_, exp):
                    res.violations.append(V('C10.copy-differs-from-source-file', '%s: the copy holds %s, the source file encodes %s' % (
                        p, _lazy._short(g_), _lazy._short(exp)), what='raw'))
                if len(res.violations) > 3:
                    break
        for p, n in ref['len'].items():
            if n and ref['dtype'].get(p) != got['dtype'].get(p):
                res.violations.append(V('C10.dtype-changed', '%s: %s -> %s' % (p, ref['dtype'].get(p), got['dtype'].get(p))))
        try:
            segs = parser.parse_file(out)
            if iout is not None:
                exp = b''.join(b'TDSh' + out[s['pos'] + 4:s['data_pos']] for s in segs)
                if iout != exp:
                    res.violations.append(V('C10.index-differs', 'destination index is not the destination minus raw data'))
        except Structural as exc:
            res.violations.append(V('C10.destination-structure', exc.what, **exc.sig))
        res.ev('out', digest(out), digest(got))
    return res


def shrink_candidates(case):
    from ..shrink import spec_candidates
    for k, v in (('src_kind', 'bytesio'), ('dst_kind', 'simpath'), ('index', False), ('version', 4712), ('cut', None), ('inplace', False)):
        if case.get(k) != v:
            c = dict(case)
            c[k] = v
            yield c
    if case['source']['kind'] == 'stub':
        for sp in spec_candidates(case['source']['spec']):
            c = dict(case)
            c['source'] = {'kind': 'stub', 'spec': sp}
            yield c
    else:
        from .c08 import shrink_candidates as sc
        for c2 in sc({'program': case['source']['program'], 'sink': 'simpath', 'index': False}):
            c = dict(case)
            c['source'] = {'kind': 'writer', 'program': c2['program']}
            yield c


def sample(case):
    s = case['source']
    return {'source': s['kind'], 'shape': shape_sig(s['spec']) if s['kind'] == 'stub' else prog_sig(s['program']),
            'src': case['src_kind'], 'dst': case['dst_kind'], 'index': case['index']}
