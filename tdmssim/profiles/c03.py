"""C03 - every way of obtaining a channel's data gives the same data.

One stored file, several consumer handles opened on it with different configurations
({read, open} x backend x memmap_dir x raw_timestamps), and on each handle every access path the
API documents for that mode; all results must agree with each other and with the model."""
import numpy as np

from .. import gen, lib, ops, fmt
from ..backends import store
from ..compare import V
from ..core import Result, digest
from ..world import build
from . import _lazy
from .c01 import shape_sig

PROP = 'C03'
LEVEL = 'exploration'
N = {'quick': 14000, 'thorough': 1000000}
RULE = ('seeded worlds (stub-made; all 17 types, contiguous/interleaved, typeless and empty channels, DAQmx and '
        'scaled channels when the world generator emits them); per world 3-4 handles drawn from {read, open} x '
        '{SimFile stream, SimFS path, BytesIO, real path} x {memmap_dir None, real dir} x {raw_timestamps F, T}; on '
        'each handle every documented access path per channel. distinct = (segment shapes, handle '
        'configurations); non-trivial = a channel with >= 1 value was obtained through >= 2 different paths')
EXPECTED_PROBES = ['memmap-handle', 'raw-vs-converted-timestamps', 'file-level-chunks', 'typeless-channel', 'eager+lazy',
                   'scaled-channel']
MODES = ['read', 'open']
BACKENDS = ['simstream', 'simpath', 'bytesio', 'realpath', 'realfile', 'rawfile', 'gzipfile', 'oldproto']


def opts(tier):
    o = gen.Opts()
    o.max_segments = 5
    o.max_channels = 4
    o.props = False
    o.huge_p = 0.004
    o.many_segments_p = 0.01
    o.long_run_p = 0.006
    o.short_last_p = 0.05
    o.declared_huge_p = 0.01
    o.equal_shapes_p = 0.15

    def scaling(rng, spec, ctype):
        if rng.random() < 0.35:
            from .c14 import add_sensor
            from .c13 import add_scaling
            add_sensor(rng, spec, ctype, 0.5, only_float=True)     # sensor scales are defined on floating point data
            add_scaling(rng, spec, ctype, p=0.4)
    o.scaling = scaling
    return gen.deepen(o, tier)


def generate(rng, tier):
    from .c11 import maybe_daqmx_world
    spec = maybe_daqmx_world(rng, 0.08)
    if spec is None:
        spec, w, _ = gen.gen_world(rng, opts(tier))
    handles = []
    for _ in range(rng.randint(3, 4)):
        handles.append({'mode': rng.choice(MODES), 'backend': rng.choice(BACKENDS),
                        'memmap': rng.random() < 0.25, 'raw_ts': rng.random() < 0.5,
                        # the order in which channel[i] visits the positions (the lazy path keeps the chunk last read)
                        'index_order': rng.choice(['asc', 'asc', 'desc', 'neg', 'shuffle']), 'index_seed': rng.getrandbits(16)})
    if not any(h['mode'] == 'read' for h in handles):
        handles[0]['mode'] = 'read'
    if not any(h['mode'] == 'open' for h in handles):
        handles[-1]['mode'] = 'open'
    return {'spec': spec, 'handles': handles, 'short_seed': rng.getrandbits(32) if rng.random() < 0.2 else None,
            'debug_log': rng.random() < 0.05}


UNSCALED_PATHS = ('read_data(scaled=False)', 'raw_data')


def access_paths(tf, w, path, mode, n, file_chunks, keeper=None, index_order='asc', index_seed=0):
    """name -> (normalised result | ('exc', class, message))"""
    c = ops.chan(tf, w, path)
    out = {}

    def rec(name, fn):
        try:
            out[name] = fn()
        except Exception as exc:
            out[name] = ('exc', type(exc).__name__, str(exc)[:120])

    def kept(name, fn):
        obj = fn()
        nm = ops.norm(obj)
        if keeper is not None:
            keeper.keep('%s %s %s' % (mode, path, name), obj, nm)
        return nm

    rec('[:]', lambda: kept('[:]', lambda: c[:]))
    rec('[...]', lambda: kept('[...]', lambda: c[...]))
    rec('read_data()', lambda: kept('read_data()', lambda: c.read_data()))
    rec('iter', lambda: ops.norm_iter_list(list(iter(c))))
    if n <= 40:
        def by_index():
            order = list(range(n))
            if index_order in ('desc', 'neg'):
                order.reverse()
            elif index_order == 'shuffle':
                import random
                random.Random(index_seed).shuffle(order)
            vals = [None] * n
            for i in order:
                vals[i] = c[i - n] if index_order == 'neg' else c[i]
            return ops.norm_iter_list(vals)
        rec('[i]', by_index)
    rec('read_data(scaled=False)', lambda: kept('read_data(scaled=False)', lambda: c.read_data(scaled=False)))
    if mode == 'read':
        rec('.data', lambda: kept('.data', lambda: c.data))
        if w.chans[path].type != 'daqmx' or len(w.chans[path].scalers) == 1:
            rec('raw_data', lambda: kept('raw_data', lambda: c.raw_data))
    else:
        def chunks():
            parts = []
            count = 0
            for ck in (list(c.data_chunks()) if (n % 2) else c.data_chunks()):
                if ck.offset != count:
                    raise AssertionError('chunk offset %d, %d values delivered before' % (ck.offset, count))
                d = ck[:]
                if keeper is not None:
                    keeper.keep('%s %s data_chunks()[..][:]' % (mode, path), d)
                if len(ck) != len(d):
                    raise AssertionError('len(chunk) %d != len(chunk[:]) %d' % (len(ck), len(d)))
                count += len(d)
                parts.append(ops.norm(d))
            return ops.concat_norm(parts) or ('arr', '?', 0, '')
        rec('channel.data_chunks()', chunks)
        if file_chunks is not None:
            out['TdmsFile.data_chunks()'] = file_chunks.get(path, ('arr', '?', 0, ''))
    return out


def collect_file_chunks(tf, retained=False):
    """retained=True: the whole stream is collected first (list(f.data_chunks())) and inspected afterwards, the
    way a consumer that batches or looks ahead uses it; otherwise each chunk is inspected inside the loop."""
    parts = {}
    counts = {}
    err = None
    try:
        stream = list(tf.data_chunks()) if retained else tf.data_chunks()
        for chunk in stream:
            for g in chunk.groups():
                for cc in g.channels():
                    p = fmt.quote_path(g.name, cc.name)
                    try:
                        d = cc[:]
                    except Exception as exc:
                        parts[p] = ('exc', type(exc).__name__, str(exc)[:120])
                        continue
                    if isinstance(parts.get(p), tuple):
                        continue
                    if cc.offset != counts.get(p, 0):
                        parts[p] = ('exc', 'AssertionError', 'file chunk offset %d, %d values delivered before' % (
                            cc.offset, counts.get(p, 0)))
                        continue
                    counts[p] = counts.get(p, 0) + len(d)
                    parts.setdefault(p, []).append(ops.norm(d))
    except Exception as exc:
        err = ('exc', type(exc).__name__, str(exc)[:120])
    out = {}
    for p, v in parts.items():
        out[p] = v if isinstance(v, tuple) else (ops.concat_norm(v) or ('arr', '?', 0, ''))
    return out, err


def is_empty(x):
    return x[0] in ('arr', 'strs', 'rawts') and _lazy.full_len(x) == 0


def execute(case):
    res = Result()
    spec = case['spec']
    w = build(spec)
    from .c04 import _sig
    res.sig = [_sig(spec), [(h['mode'], h['backend'], h['memmap'], h['raw_ts']) for h in case['handles']]]
    modes = set(h['mode'] for h in case['handles'])
    if len(modes) == 2:
        res.probe('eager+lazy')
    with store(short_seed=case['short_seed'], record=False) as st, lib.knobs(debug_log=case.get('debug_log', False)):
        st.put('w.tdms', w.data)
        per_chan = {p: [] for p in w.chans}       # (handle index, raw_ts, name, result)
        opened = []
        keeper = ops.Keeper(limit=600)
        from .. import scalemodel
        is_scaled = {p: scalemodel.channel_scales(w, p) is not None for p in w.chans}
        if any(is_scaled.values()):
            res.probe('scaled-channel')
        for hi, h in enumerate(case['handles']):
            kw = {'raw_timestamps': h['raw_ts']}
            if h['memmap']:
                kw['memmap_dir'] = st.realdir()
                res.probe('memmap-handle')
            try:
                src = st.source(h['backend'], 'w.tdms')
                tf = lib.TdmsFile.read(src, **kw) if h['mode'] == 'read' else lib.TdmsFile.open(src, **kw)
            except Exception as exc:
                res.skipped_ops += 1
                res.ev('open-raises', hi, type(exc).__name__)
                continue
            opened.append(tf)
            file_chunks = None
            if h['mode'] == 'open':
                file_chunks, err = collect_file_chunks(tf, retained=(hi % 2 == 1))
                if hi % 2 == 1:
                    res.probe('file-chunks-inspected-after-the-stream-ended')
                res.probe('file-level-chunks')
                if err is not None:
                    res.violations.append(V('C03.raises', 'handle %s: TdmsFile.data_chunks() raised %s: %s' % (h, err[1], err[2]),
                                            path='TdmsFile.data_chunks()', exc=err[1]))
                    file_chunks = None
            for path, ch in w.chans.items():
                if ch.type is None:
                    res.probe('typeless-channel')
                try:
                    n = len(ops.chan(tf, w, path))
                except Exception as exc:
                    res.violations.append(V('C03.raises', 'len(%s): %s' % (path, exc)))
                    continue
                for name, r in access_paths(tf, w, path, h['mode'], n, file_chunks, keeper, h.get('index_order', 'asc'), h.get('index_seed', 0)).items():
                    per_chan[path].append((hi, h, name, r))
                    res.steps += 1
        for path, ch in w.chans.items():
            results = per_chan[path]
            if ch.type == 'daqmx':
                unscaled_names = ('read_data(scaled=False)',)
            ok_results = []
            for (hi, h, name, r) in results:
                label = '%s/%s/%s%s%s' % (h['mode'], h['backend'], name, '/memmap' if h['memmap'] else '',
                                          '/raw_ts' if h['raw_ts'] else '')
                if r[0] == 'exc':
                    res.violations.append(V('C03.raises', '%s on %s (type %s, len %d): %s: %s' % (
                        label, path, ch.type, ch.count, r[1], r[2]), path=name, mode=h['mode'], exc=r[1],
                        typeless=ch.type is None))
                    continue
                res.compared += 1
                unscaled_path = name in UNSCALED_PATHS
                if ch.type == 'daqmx':
                    if unscaled_path:
                        exp = _lazy.model_full(ch, True)
                        if name == 'raw_data':
                            exp = exp[1][0][1]
                        if r != exp and ch.count:
                            res.violations.append(V('C03.differs-from-model', '%s on %s (DAQmx): got %s expected %s' % (
                                label, path, _lazy._short(r), _lazy._short(exp)), path=name, mode=h['mode']))
                            continue
                elif unscaled_path or not is_scaled[path]:
                    exp = _lazy.model_full(ch, h['raw_ts'])
                    if not ops.agree(r, exp) and not (is_empty(r) and _lazy.full_len(exp) == 0):
                        res.violations.append(V('C03.differs-from-model', '%s on %s (type %s): got %s expected %s' % (
                            label, path, ch.type, _lazy._short(r), _lazy._short(exp)), path=name, mode=h['mode']))
                        continue
                ok_results.append((hi, h, name, r, label))
            # all paths agree exactly within one timestamp representation (scaled and unscaled paths of a
            # scaled channel form two groups)
            split = is_scaled[path] or ch.type == 'daqmx'
            for raw, cls in ((False, False), (True, False), (False, True), (True, True)):
                group = [x for x in ok_results if x[1]['raw_ts'] == raw and ((x[2] in UNSCALED_PATHS) == cls or not split)]
                if not split and cls:
                    continue
                if ch.type == 'daqmx' and cls:
                    group = [x for x in group if x[2] != 'raw_data']
                if len(group) >= 2 and ch.count > 0:
                    res.nontrivial = True
                if group:
                    ref = group[0]
                    for x in group[1:]:
                        if x[3] != ref[3] and not (is_empty(x[3]) and is_empty(ref[3])):
                            res.violations.append(V('C03.paths-disagree', '%s vs %s on %s: %s vs %s' % (
                                x[4], ref[4], path, _lazy._short(x[3]), _lazy._short(ref[3])), path=x[2], other=ref[2]))
                            break
            # raw vs converted timestamps: same library conversion on both sides
            if ch.type == 'ts' and ch.count:
                raws = [x for x in ok_results if x[1]['raw_ts'] and x[2] == '[:]']
                convs = [x for x in ok_results if not x[1]['raw_ts'] and x[2] == '[:]']
                if raws and convs:
                    res.probe('raw-vs-converted-timestamps')
                    b = bytes.fromhex(raws[0][3][2])
                    arr = np.frombuffer(b, dtype=ops.TS_LE)
                    ta = lib.nptdms.timestamp.TimestampArray(arr)
                    conv = ops.norm(ta.as_datetime64())
                    if conv != convs[0][3]:
                        res.violations.append(V('C03.raw-vs-converted', '%s: raw[:].as_datetime64() != converted[:]' % path))
            if len(res.violations) > 4:
                break
        # purity: after every access path has run, the unscaled data still is the file's content
        for hi, h in enumerate(case['handles']):
            if hi >= len(opened):
                break
            for path, ch in w.chans.items():
                if ch.type in (None, 'daqmx') or not ch.count:
                    continue
                c = ops.chan(opened[hi], w, path)
                for name, fn in (('read_data(scaled=False)', lambda: c.read_data(scaled=False)),) + (
                        (('raw_data', lambda: c.raw_data),) if h['mode'] == 'read' else ()):
                    r, exc, eo = ops.try_op(lambda: ops.norm(fn()))
                    if r is not None and not ops.agree(r, _lazy.model_full(ch, h['raw_ts'])):
                        res.violations.append(V('C03.unscaled-changed', '%s/%s on %s after all access paths ran: %s, file holds %s' % (
                            h['mode'], name, path, _lazy._short(r), _lazy._short(_lazy.model_full(ch, h['raw_ts']))), path=name))
        for (label, before, after) in keeper.mutated()[:3]:
            res.violations.append(V('C03.result-aliased', 'the array returned by %s changed after later reads: was %s, now %s' % (
                label, _lazy._short(before), _lazy._short(after))))
        for tf in opened:
            try:
                tf.close()
            except Exception:
                pass
        for k, v_ in st.fs.faults_fired.items():
            res.fault(k, v_)
    res.ev('violations', [v.as_dict() for v in res.violations])
    res.ev('results', digest([[(hi, name, r) for (hi, h, name, r) in v] for v in per_chan.values()]))
    return res


def shrink_candidates(case):
    from ..shrink import spec_candidates, list_candidates
    for hs in list_candidates(case['handles'], keep_min=1):
        c = dict(case)
        c['handles'] = hs
        yield c
    for i, h in enumerate(case['handles']):
        for k, v in (('memmap', False), ('backend', 'simstream'), ('raw_ts', False)):
            if h[k] != v:
                c = dict(case)
                c['handles'] = [dict(x) for x in case['handles']]
                c['handles'][i][k] = v
                yield c
    if case['short_seed'] is not None:
        c = dict(case)
        c['short_seed'] = None
        yield c
    for sp in spec_candidates(case['spec']):
        c = dict(case)
        c['spec'] = sp
        yield c


def sample(case):
    from .c04 import _sig
    return {'segments': _sig(case['spec']), 'handles': case['handles']}
