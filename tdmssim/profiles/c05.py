"""C05 - reads from an open file are independent of earlier reads.

The central use of the scheduler: generators returned by the library are cooperative tasks; a
seeded scheduler decides which one advances next, interleaved with direct reads on the same
handle.  Refinement oracle: every generator yields exactly what it yields when run alone on a
fresh handle; every direct op equals the stateless model."""
from .. import gen, lib, ops, fmt
from ..backends import store
from ..compare import V
from ..core import Result, digest
from ..world import build
from . import _lazy
from .c01 import shape_sig

PROP = 'C05'
LEVEL = 'exploration'
N = {'quick': 26000, 'thorough': 2000000}
RULE = ('seeded worlds (2-8 segments, 1-4 channels, some with identical shapes so the offset index is '
        'de-duplicated, _array_equal chunk knob in {1,2,3,100}); per world a seeded schedule of <=60 actions over '
        '<=8 live generators (TdmsFile.data_chunks, channel.data_chunks, iter(channel)) and direct index / slice '
        '/ read_data ops on one lazily opened handle; in 20% of worlds one transient EIO is injected at a seeded read event '
        'of that handle - or, in a third of those worlds, the caller is interrupted there (KeyboardInterrupt) and goes on using the handle - (the read that meets it may fail, every later read must still be right); in 30% of worlds a second file - a sibling with the same objects, sizes and lengths but another distribution over the segments, or an unrelated file with the same paths - is open at the same time and read in between. distinct = distinct abstract traces [(action, generator '
        'kind, op kind)...] x world shape; non-trivial = at least one generator was advanced with another '
        'action interleaved between two of its yields')
EXPECTED_PROBES = ['caller-moved-its-stream', 'chunk-first-looked-at-late', 'caller-scribbled-on-result', 'interrupt:op-raised', 'truncated-file', 'second-file-op', 'eio:op-raised', 'eio:generator-hit', 'scaled-channel', 'read-between-file-chunks', 'two-generators-same-channel', 'abandoned-then-new',
                   'index-cache-hit-after-other-read', 'generator-drained-at-end']
MAX_LIVE = 8


def opts(tier):
    o = gen.Opts()
    o.max_segments = 8
    o.many_segments_p = 0.01
    o.max_channels = 4
    o.props = False
    o.huge_p = 0.004
    o.max_chunks = 4
    o.equal_shapes_p = 0.3
    o.typeless_p = 0.05
    o.long_run_p = 0.006
    o.short_last_p = 0.08
    o.declared_huge_p = 0.01

    def scaling(rng, spec, ctype):
        # scaled channels: the one-chunk cache then holds scaled chunks and scaling objects are shared by all reads
        if rng.random() < 0.3:
            from .c14 import add_sensor
            from .c13 import add_scaling
            add_sensor(rng, spec, ctype, 0.3, only_float=True)
            add_scaling(rng, spec, ctype, p=0.5)
    o.scaling = scaling
    return gen.deepen(o, tier)


def gen_op(rng, w, path, kind='op'):
    ln = w.chans[path].count
    k = rng.random()
    if k < 0.5:
        return {'a': kind, 'op': 'index', 'ch': path, 'i': rng.randint(-ln - 1, ln)}
    if k < 0.75:
        off = rng.randint(0, ln + 1)
        return {'a': kind, 'op': 'read_data', 'ch': path, 'offset': off, 'length': rng.choice([None, 0, 1, rng.randint(0, ln + 1)]),
                'scaled': rng.random() >= 0.25}
    return {'a': kind, 'op': 'slice', 'ch': path, 'start': rng.choice([None, rng.randint(-ln - 1, ln + 1)]),
            'stop': rng.choice([None, rng.randint(-ln - 1, ln + 1)]), 'step': rng.choice([None, 1, 2, -1])}


def gen_actions(rng, w, nmax=60, w2=None):
    chans = [p for p, c in w.chans.items()]
    chans2 = [p for p, c in w2.chans.items() if c.type is not None] if w2 is not None else []
    acts = []
    live = []
    next_id = 0
    n = rng.randint(5, nmax)
    for _ in range(n):
        r = rng.random()
        if rng.random() < 0.04:
            # simulated time passes between two requests (or the wall clock is set back)
            acts.append({'a': 'think', 's': rng.choice([0.5, 2.0, 400.0, 90000.0, -3600.0])})
            continue
        if rng.random() < 0.04:
            # the caller uses the stream it handed to TdmsFile.open itself in between (hashes it, peeks at the header)
            acts.append({'a': 'touch', 'frac': rng.random()})
            continue
        if chans2 and rng.random() < 0.3:
            # the same kinds of reads on the other open file
            acts.append(gen_op(rng, w2, rng.choice(chans2), kind='bop'))
            continue
        if live and r < 0.45:
            acts.append({'a': 'next', 'id': rng.choice(live)})
        elif r < 0.8 and chans:
            path = rng.choice(chans)
            ln = w.chans[path].count
            k = rng.random()
            if k < 0.5:
                acts.append({'a': 'op', 'op': 'index', 'ch': path, 'i': rng.randint(-ln - 1, ln)})
            elif k < 0.75:
                off = rng.randint(0, ln + 1)
                acts.append({'a': 'op', 'op': 'read_data', 'ch': path, 'offset': off,
                             'length': rng.choice([None, 0, 1, rng.randint(0, ln + 1)]),
                             # raw, unscaled values of a window (what read_data is for): the chunk kept for integer
                             # indexing holds scaled data
                             'scaled': rng.random() >= 0.25})
            else:
                acts.append({'a': 'op', 'op': 'slice', 'ch': path, 'start': rng.choice([None, rng.randint(-ln - 1, ln + 1)]),
                             'stop': rng.choice([None, rng.randint(-ln - 1, ln + 1)]), 'step': rng.choice([None, 1, 2, -1])})
        elif r < 0.93 and len(live) < MAX_LIVE:
            kind = rng.choice(['file', 'file', 'chan', 'chan', 'iter'])
            a = {'a': 'new', 'id': next_id, 'kind': kind}
            if kind == 'file' and rng.random() < 0.3:
                a['late'] = True      # the consumer looks at each chunk only after it has asked for the next one (look-behind, queues)
            if kind != 'file':
                if not chans:
                    continue
                a['ch'] = rng.choice(chans)
                if kind == 'iter' and w.chans[a['ch']].count > 5000:
                    a['kind'] = 'chan'        # value-by-value iteration over a very long channel is only long, not different
            acts.append(a)
            live.append(next_id)
            next_id += 1
        elif live:
            i = rng.choice(live)
            live.remove(i)
            acts.append({'a': 'drop', 'id': i})
    return acts


def generate(rng, tier):
    o = opts(tier)
    from .c11 import maybe_daqmx_world
    spec = maybe_daqmx_world(rng, 0.1)
    if spec is None:
        spec, w, _ = gen.gen_world(rng, o)
    else:
        w = build(spec)
    cut = None
    last = w.segs[-1]
    if (not any(sg.get('layout') == 'daqmx' for sg in spec['segments']) and last.end - last.data_pos > 1
            and not spec['segments'][-1].get('short_last') and rng.random() < 0.1):
        cut = rng.randint(last.data_pos + 1, last.end - 1)     # the file a crashed producer left behind
    by = None
    w2 = None
    if rng.random() < 0.3 and not any(sg.get('layout') == 'daqmx' for sg in spec['segments']):
        # a second file open at the same time: a sibling of the first one (same objects, sizes and lengths, data
        # distributed differently over the segments) or an unrelated world that uses the same object paths
        sib = gen.sibling(rng, spec) if rng.random() < 0.7 else None
        if sib is not None:
            by = sib[0]
        else:
            o2 = opts(tier)
            o2.scaling = None
            o2.huge_p = 0.0
            o2.fixed_names = spec['names']
            try:
                by = gen.gen_world(rng, o2)[0]
            except RuntimeError:
                by = None
        if by is not None:
            by = strip_scaling(by)
            w2 = build(by)
    return {'spec': spec, 'raw_ts': rng.random() < 0.4, 'backend': rng.choice(['simstream', 'simstream', 'simpath', 'bytesio', 'realpath', 'realfile', 'rawfile']),
            'dedup_chunk': rng.choice([1, 2, 3, 100]), 'actions': gen_actions(rng, w, w2=w2), 'bystander': by, 'cut': cut,
            'bystander_first': rng.random() < 0.5,
            'short_seed': rng.getrandbits(32) if rng.random() < 0.2 else None, 'debug_log': rng.random() < 0.05,
            # a transient I/O error on the open handle: the read that meets it may fail, later reads must not be affected
            'eio_at': rng.randint(5, 200) if rng.random() < 0.2 else None,
            # ... or the caller is interrupted inside that read (KeyboardInterrupt) and goes on using the handle
            'eio_kind': rng.choice(['eio', 'eio', 'interrupt'])}


def strip_scaling(spec):
    """The bystander file is judged against the raw model: its scaling properties are dropped."""
    import copy
    s2 = copy.deepcopy(spec)
    for sg in s2['segments']:
        for L in sg.get('listed', []):
            L['props'] = [pr for pr in L.get('props', []) if not str(pr[0]).startswith('NI_')]
    return s2


def make_gen(tf, w, a):
    if a['kind'] == 'file':
        return tf.data_chunks()
    c = ops.chan(tf, w, a['ch'])
    if a['kind'] == 'chan':
        return c.data_chunks()
    return iter(c)


def norm_item(kind, item, w):
    if kind == 'file':
        out = []
        for g in item.groups():
            for cc in g.channels():
                try:
                    d = ops.norm(cc[:])
                except Exception as exc:
                    d = ('exc', type(exc).__name__)
                out.append((fmt.quote_path(g.name, cc.name), int(cc.offset), d))
        return sorted(out)
    if kind == 'chan':
        try:
            d = ops.norm(item[:])
        except Exception as exc:
            d = ('exc', type(exc).__name__)
        return (int(item.offset), d)
    return ops.norm(item)


def reference(st, w, case, a):
    """The sequence the generator yields when run alone to completion on a fresh handle."""
    tf = lib.TdmsFile.open(st.source('simstream', 'w.tdms'), raw_timestamps=case['raw_ts'])
    try:
        return [norm_item(a['kind'], it, w) for it in make_gen(tf, w, a)]
    finally:
        tf.close()


def execute(case):
    res = Result()
    spec = case['spec']
    w = build(spec)
    raw_ts = case['raw_ts']
    acts = case['actions']
    trace = [(a['a'], a.get('kind'), a.get('op')) for a in acts]
    from .c04 import _sig
    res.sig = [_sig(spec), trace]
    with store(short_seed=case['short_seed'], record=False) as st, lib.knobs(dedup_chunk=case['dedup_chunk'], debug_log=case.get('debug_log', False)):
        cut = case.get('cut')
        st.put('w.tdms', w.data if cut is None else w.data[:cut])
        if cut is not None:
            res.probe('truncated-file')
            res.fault('crash')
        eio = case.get('eio_at')
        tf2 = w2 = None
        fulls2 = {}

        def open_bystander():
            wb = build(case['bystander'])
            st.put('b.tdms', wb.data)
            return wb, lib.TdmsFile.open(st.source('simstream', 'b.tdms'), raw_timestamps=raw_ts)
        try:
            if case.get('bystander') is not None and case.get('bystander_first'):
                w2, tf2 = open_bystander()
            src = st.source(case['backend'] if eio is None else 'simstream', 'w.tdms')
            tf = lib.TdmsFile.open(src, raw_timestamps=raw_ts)
            if case.get('bystander') is not None and tf2 is None:
                w2, tf2 = open_bystander()
        except Exception as exc:
            res.skipped_ops += len(acts)
            res.ev('open-raises', type(exc).__name__)
            if tf2 is not None:
                tf2.close()
            return res
        if tf2 is not None:
            res.probe('second-file-open')
            fulls2 = {p: _lazy.model_full(c, raw_ts) for p, c in w2.chans.items()}
        if eio is not None:
            src.fail_local = {src.local_reads + eio}
            src.fail_local_interrupt = case.get('eio_kind') == 'interrupt'
        res.backend = case['backend'] if eio is None else 'simstream'
        fulls = {p: _lazy.model_full(c, raw_ts) for p, c in w.chans.items()}
        raw_fulls = dict(fulls)          # what read_data(scaled=False) is compared with
        from .. import scalemodel
        scaled = [p for p in w.chans if w.chans[p].type not in (None, 'daqmx') and (
            cut is not None or scalemodel.channel_scales(w, p) is not None)]
        if scaled:
            # scaled channels, and every channel of a file cut short by a crash: the oracle is what the same read
            # yields on a freshly opened file
            if cut is None:
                res.probe('scaled-channel')
            fresh = lib.TdmsFile.open(st.source('simstream', 'w.tdms'), raw_timestamps=raw_ts)
            try:
                for p in scaled:
                    r_, exc_, _eo = ops.try_op(lambda: ops.norm(ops.chan(fresh, w, p)[:]))
                    fulls[p] = r_ if (r_ is not None and r_[0] in ('arr', 'strs', 'rawts')) else None
                    if cut is not None:
                        r_, exc_, _eo = ops.try_op(lambda: ops.norm(ops.chan(fresh, w, p).read_data(scaled=False)))
                        raw_fulls[p] = r_ if (r_ is not None and r_[0] in ('arr', 'strs', 'rawts')) else None
            finally:
                fresh.close()
        keeper = ops.Keeper()
        res.held = []
        gens = {}        # id -> [generator, action, position, reference list]
        last_advanced = None
        dropped_kinds = set()
        last_index_chunk = {}
        other_read_since = {}
        try:
            for step, a in enumerate(acts):
                res.steps += 1
                if a['a'] == 'new':
                    try:
                        ref = reference(st, w, case, a)
                    except Exception as exc:
                        # the generator fails even when run alone: not an order-dependence (C03/C01 territory)
                        res.skipped_ops += 1
                        res.ev(step, 'ref-raises', type(exc).__name__)
                        continue
                    gens[a['id']] = [make_gen(tf, w, a), a, 0, ref, []]
                    same = [g for i, g in gens.items() if i != a['id'] and g[1].get('ch') == a.get('ch') and g[1]['kind'] == a['kind']]
                    if same and a['kind'] != 'file':
                        res.probe('two-generators-same-channel')
                    if (a['kind'], a.get('ch')) in dropped_kinds:
                        res.probe('abandoned-then-new')
                    res.ev(step, 'new', a['kind'], len(ref))
                elif a['a'] == 'drop':
                    g = gens.pop(a['id'], None)
                    if g is not None:
                        dropped_kinds.add((g[1]['kind'], g[1].get('ch')))
                        g[0].close() if hasattr(g[0], 'close') else None
                    res.ev(step, 'drop')
                elif a['a'] == 'next':
                    g = gens.get(a['id'])
                    if g is None:
                        continue
                    if last_advanced is not None and last_advanced != a['id'] and g[2]:
                        res.nontrivial = True
                        if g[1]['kind'] == 'file':
                            res.probe('read-between-file-chunks')
                    fired0 = st.fs.faults_fired.get('eio', 0)
                    try:
                        v = advance(g, w, step, res)
                    except KeyboardInterrupt:
                        v = None
                        res.probe('interrupt:generator-hit')
                    if st.fs.faults_fired.get('eio', 0) > fired0:
                        res.probe('eio:generator-hit')
                        g[2] = None       # a generator that met the injected error is finished; nothing more is asked of it
                        v = None
                    if v:
                        res.violations.append(v)
                    last_advanced = a['id']
                    for k in other_read_since:
                        other_read_since[k] = True
                elif a['a'] == 'touch':
                    if hasattr(src, 'seek') and hasattr(src, 'read'):
                        try:
                            src.seek(int(a['frac'] * len(w.data)))
                            src.read(4)
                            res.probe('caller-moved-its-stream')
                        except (OSError, ValueError, KeyboardInterrupt):
                            pass          # the injected transient fault may meet the caller's own read
                    res.ev(step, 'touch')
                elif a['a'] == 'think':
                    res.probe('think-time')
                    if a['s'] > 0:
                        st.fs.clock.advance(a['s'])
                    else:
                        st.fs.clock.step_wall(a['s'])
                        st.fs.clock.advance(1.0)
                    res.ev(step, 'think', a['s'])
                elif a['a'] == 'bop':
                    if tf2 is None or a['ch'] not in fulls2:
                        continue
                    op = {k: v for k, v in a.items() if k != 'a'}
                    v, g_, exc = _lazy.check_op(tf2, w2, op, fulls2[a['ch']], 'C05.other-file-op', 'lazy', res=res, keeper=keeper,
                                                   scribble=(step % 3 == 1))
                    res.compared += 1
                    res.probe('second-file-op')
                    if v is not None:
                        v.sig['step'] = step
                        res.violations.append(v)
                    res.ev(step, 'bop', exc or (digest(g_) if g_ is not None else None))
                    last_advanced = ('bop', step)
                    for k_ in list(other_read_since):
                        other_read_since[k_] = True
                else:
                    op = {k: v for k, v in a.items() if k != 'a'}
                    full = fulls[op['ch']]
                    if op['op'] == 'read_data' and op.get('scaled', True) is False:
                        full = raw_fulls[op['ch']]
                        res.probe('unscaled-window')
                    if w.chans[op['ch']].type == 'daqmx':
                        full = _lazy.op_full(w, w.chans[op['ch']], op, raw_ts)
                        res.probe('daqmx-op')
                    if full is None or full[0] == 'dict':
                        res.skipped_ops += 1
                        continue
                    if op['op'] == 'index':
                        ch = w.chans[op['ch']]
                        n = ch.count
                        i = op['i'] + n if op['i'] < 0 else op['i']
                        ck = None
                        for (k, c, first, cnt, _e, _ce) in ch.prov:
                            if first <= i < first + cnt:
                                ck = (k, c)
                        if ck is not None and last_index_chunk.get(op['ch']) == ck and other_read_since.get(op['ch']):
                            res.probe('index-cache-hit-after-other-read')
                        if ck is not None:
                            last_index_chunk[op['ch']] = ck
                            for k_ in list(other_read_since):
                                other_read_since[k_] = True
                            other_read_since[op['ch']] = False
                    else:
                        for k_ in list(other_read_since):
                            other_read_since[k_] = True
                    fired0 = st.fs.faults_fired.get('eio', 0)
                    try:
                        v, g_, exc = _lazy.check_op(tf, w, op, full, 'C05.op', 'lazy', res=res, keeper=keeper, scribble=(step % 3 == 0))
                    except KeyboardInterrupt:
                        v, g_, exc = None, None, 'KeyboardInterrupt'
                        res.probe('interrupt:op-raised')
                    if exc == 'OSError' and st.fs.faults_fired.get('eio', 0) > fired0:
                        res.probe('eio:op-raised')
                        v = None          # the read that met the injected error may fail; it must not poison later reads
                    res.compared += 1
                    if v is not None:
                        v.sig['step'] = step
                        res.violations.append(v)
                    res.ev(step, 'op', exc or (digest(g_) if g_ is not None else None))
                    last_advanced = ('op', step)
                if len(res.violations) > 3:
                    break
            # bounded progress: every generator still alive finishes, with the right remaining items
            for gid, g in sorted(gens.items()):
                if g[2] is None:
                    continue
                remaining = max(0, len(g[3]) - g[2])
                for _ in range(remaining + 1):
                    res.steps += 1
                    fired0 = st.fs.faults_fired.get('eio', 0)
                    try:
                        v = advance(g, w, 'drain', res)
                    except KeyboardInterrupt:
                        v = None
                    if st.fs.faults_fired.get('eio', 0) > fired0:
                        res.probe('eio:generator-hit')
                        g[2] = None
                        break
                    if v:
                        res.violations.append(v)
                        break
                    if g[2] is None:
                        break
                else:
                    res.violations.append(V('C05.iterator-does-not-finish', '%s generator still yields after %d items' % (
                        g[1]['kind'], len(g[3])), kind=g[1]['kind']))
                res.probe('generator-drained-at-end')
            for (kind_, ch_, item_, got_) in res.held:
                now = norm_item(kind_, item_, w)
                if now != got_:
                    res.violations.append(V('C05.item-changed-later', 'an item yielded by a %s generator%s reads differently after later '
                                            'operations: was %s, now %s' % (kind_, ' of ' + ch_ if ch_ else '', _lazy._short(got_),
                                                                            _lazy._short(now)), kind=kind_))
                    break
            res.held = None
            for (label, before, after) in keeper.mutated()[:3]:
                res.violations.append(V('C05.result-changed-later', 'the array returned by %s changed when later reads ran: was %s, '
                                        'now %s' % (label, _lazy._short(before), _lazy._short(after))))
        finally:
            tf.close()
            if tf2 is not None:
                tf2.close()
        for k, v_ in st.fs.faults_fired.items():
            res.fault(k, v_)
    return res


def advance(g, w, step, res):
    """next() on a generator record; compares with the reference sequence. Sets position None when finished."""
    it, a, pos, ref = g[:4]
    pending = g[4] if len(g) > 4 else []
    if pos is None:
        return None

    def look_at_pending():
        # first look at chunks that were delivered earlier
        while pending:
            ppos, pitem = pending.pop(0)
            pgot = norm_item(a['kind'], pitem, w)
            res.probe('chunk-first-looked-at-late')
            if ppos < len(ref) and pgot != ref[ppos]:
                return V('C05.iterator-item-differs', '%s generator item %d, first looked at after the next one had been requested, '
                         'differs from the item it yields when run alone: got %s alone %s' % (
                             a['kind'], ppos, _lazy._short(pgot), _lazy._short(ref[ppos])), kind=a['kind'], late=True)
        return None
    try:
        item = next(it)
    except StopIteration:
        g[2] = None
        res.ev(step, 'stop', a['kind'], pos)
        v_ = look_at_pending()
        if v_ is not None:
            return v_
        if pos != len(ref):
            return V('C05.iterator-stops-early', '%s generator%s stopped after %d of %d items' % (
                a['kind'], ' of ' + a['ch'] if 'ch' in a else '', pos, len(ref)), kind=a['kind'])
        return None
    except Exception as exc:
        g[2] = None
        res.ev(step, 'raise', a['kind'], type(exc).__name__)
        return V('C05.iterator-raises', '%s generator raised %s: %s at item %d' % (a['kind'], type(exc).__name__, exc, pos),
                 kind=a['kind'], exc=type(exc).__name__)
    if a.get('late'):
        v_ = look_at_pending()
        pending.append((pos, item))
        g[2] = pos + 1
        res.compared += 1
        res.ev(step, 'next-unseen', a['kind'], pos)
        if v_ is not None:
            return v_
        if pos >= len(ref):
            return V('C05.iterator-extra-item', '%s generator yields item %d, alone it yields %d' % (a['kind'], pos, len(ref)),
                     kind=a['kind'])
        return None
    got = norm_item(a['kind'], item, w)
    held = getattr(res, 'held', None)
    if held is not None and len(held) < 200:
        held.append((a['kind'], a.get('ch'), item, got))
    res.compared += 1
    res.ev(step, 'next', a['kind'], pos, digest(got))
    if pos >= len(ref):
        g[2] = pos + 1
        return V('C05.iterator-extra-item', '%s generator yields item %d, alone it yields %d' % (a['kind'], pos, len(ref)),
                 kind=a['kind'])
    if got != ref[pos]:
        g[2] = pos + 1
        return V('C05.iterator-item-differs', '%s generator%s item %d differs from the item it yields when run alone: '
                 'got %s alone %s' % (a['kind'], ' of ' + a['ch'] if 'ch' in a else '', pos, _lazy._short(got),
                                      _lazy._short(ref[pos])), kind=a['kind'])
    g[2] = pos + 1
    return None


def shrink_candidates(case):
    from ..shrink import spec_candidates, list_candidates
    for acts in list_candidates(case['actions']):
        c = dict(case)
        c['actions'] = acts
        yield c
    if case.get('eio_at') is not None:
        c = dict(case)
        c['eio_at'] = None
        yield c
    if case.get('cut') is not None:
        c = dict(case)
        c['cut'] = None
        yield c
    if case.get('bystander') is not None:
        c = dict(case)
        c['bystander'] = None
        c['actions'] = [a for a in case['actions'] if a['a'] != 'bop']
        yield c
        for sp in spec_candidates(case['bystander']):
            c = dict(case)
            c['bystander'] = sp
            c['actions'] = [a for a in case['actions'] if a['a'] != 'bop' or a['ch'] in sp['names']]
            yield c
    for k, v in (('short_seed', None), ('backend', 'simstream'), ('dedup_chunk', 100), ('raw_ts', False)):
        if case[k] != v:
            c = dict(case)
            c[k] = v
            yield c
    for sp in spec_candidates(case['spec']):
        c = dict(case)
        c['spec'] = sp
        c['actions'] = [a for a in case['actions'] if a.get('ch') is None or a['ch'] in sp['names']]
        yield c


def sample(case):
    from .c04 import _sig
    return {'segments': _sig(case['spec']), 'backend': case['backend'], 'dedup_chunk': case['dedup_chunk'],
            'actions': case['actions'][:25], 'n_actions': len(case['actions'])}
