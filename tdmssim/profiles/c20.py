"""C20 - npTDMS closes the files it opened, only those, and fails loudly afterwards.

Fault enumeration on the simulated descriptor table: per world and API scenario
  (1) a fault-free run, (1b) EVERY open() call failing in turn, (2) EIO, then a KeyboardInterrupt, injected at EVERY read event in turn, (3) EVERY structural field
  of every segment garbled with each of several values, a foreign index, (4) close() inserted at
  EVERY position of an op history (generators suspended), double close, reads after close."""
import io
import os
import random
import struct

from .. import gen, lib, ops, fmt, wgen, wexec
from ..backends import store, open_fds
from ..simfs import SIM_ROOT
from ..compare import V
from ..core import Result, digest
from ..world import build
from . import _lazy
from .c01 import shape_sig
from .c05 import gen_actions, make_gen, norm_item

PROP = 'C20'
LEVEL = 'fault_enumeration'
N = {'quick': 240, 'thorough': 15000}
BATCH = 4
RULE = ('seeded small worlds (1-4 segments, <=3 channels, optional index file, DAQmx worlds included); per world the '
        'scenarios read / read_metadata / open+ops+close / with-open / defragment / TdmsWriter with-block over {path, '
        'stream} x {index absent, present}; for each scenario: fault-free run, every open() call of the library failing in turn, then EIO, and separately a KeyboardInterrupt (the caller interrupted inside the read), at EVERY read event k < N '
        '(exhaustive per scenario), EVERY structural field (tag, ToC, version, both offsets, object count, path '
        'length, index header, type code, dimension, count, string total, property count / name length / type / '
        'string length) garbled with 0, all-ones, a wrong tag / unknown type, a moderately large count, plus a '
        'foreign index; and close() at EVERY position of a seeded op history with suspended generators, double '
        'close and reads after close; and 16 plans of two TdmsFile objects with overlapping lifetimes on different files ({path, stream}^2 x {second open / read / read_metadata} x close order). evaluations = worlds, sub_evaluations = faulted executions. distinct = '
        '(segment shapes, index, scenario set); non-trivial = at least one injected fault made an API call raise '
        'while a library-owned handle had been opened')
EXPECTED_PROBES = ['eio:read-raised', 'corrupt:raised', 'corrupt:survived', 'foreign-index', 'close-with-suspended-generator',
                   'read-after-close:raised', 'read-after-close:cache-hit', 'writer-block-raises', 'writer-block-enospc', 'realfs-fd-check',
                   'index-present', 'overlapping-files', 'open-fails:raised', 'writer-open-fails', 'interrupt:raised', 'writer-re-entered', 'dropped-without-close']
ASSUMPTIONS = ['every open() call the library makes on a path is made to fail in turn (EMFILE for the data file, EACCES for the index file) in the path scenarios and in the TdmsWriter with-block; failures of seek()/tell() are not injected; a full disk (ENOSPC at every write event in turn) is injected for the TdmsWriter with-block only',
               'descriptors left open when TdmsFile.open(...) itself raises are not judged (the statement does not list it)']


def opts(tier):
    o = gen.Opts()
    o.max_segments = 4
    o.many_segments_p = 0.0
    o.max_channels = 3
    o.max_count = 4
    o.big_count_p = 0.0
    o.max_chunks = 2
    o.nasty_names = 0.03
    o.pad_p = 0.0
    return gen.deepen(o, tier)


def generate(rng, tier):
    from .c11 import maybe_daqmx_world
    spec = maybe_daqmx_world(rng, 0.12, max_segments=2, max_channels=3, wide_p=0.0)
    if spec is None:
        spec, w, _ = gen.gen_world(rng, opts(tier))
    else:
        w = build(spec)
    other, _w2, _ = gen.gen_world(rng, opts(tier))
    return {'spec': spec, 'other': other, 'index': rng.random() < 0.5, 'actions': gen_actions(rng, w, nmax=14),
            'program': wgen.gen_program(rng, max_calls=3), 'seed': rng.getrandbits(32), 'only': None}


# ------------------------------------------------------------------------------ structural fields
def fields(buf):
    """[(name, offset, size, endian)] of the structural fields of a stub-encoded file."""
    out = []
    pos = 0
    n = len(buf)
    while pos + 28 <= n:
        toc = struct.unpack('<l', buf[pos + 4:pos + 8])[0]
        e = '>' if toc & fmt.TOC_BIGENDIAN else '<'
        version, next_off, raw_off = struct.unpack(e + 'lQQ', buf[pos + 8:pos + 28])
        out += [('tag', pos, 4, e), ('toc', pos + 4, 4, '<'), ('version', pos + 8, 4, e), ('next_off', pos + 12, 8, e),
                ('raw_off', pos + 20, 8, e)]
        p = pos + 28
        if toc & fmt.TOC_META:
            out.append(('object count', p, 4, e))
            nobj = struct.unpack(e + 'L', buf[p:p + 4])[0]
            p += 4
            for _ in range(nobj):
                out.append(('path length', p, 4, e))
                ln = struct.unpack(e + 'L', buf[p:p + 4])[0]
                p += 4 + ln
                out.append(('index header', p, 4, e))
                hdr = struct.unpack(e + 'L', buf[p:p + 4])[0]
                p += 4
                if hdr in (fmt.FORMAT_CHANGING, fmt.DIGITAL_LINE):
                    out += [('type code', p, 4, e), ('dimension', p + 4, 4, e), ('count', p + 8, 8, e), ('scaler vector length', p + 16, 4, e)]
                    nsc = struct.unpack(e + 'L', buf[p + 16:p + 20])[0]
                    p += 20
                    for _s in range(nsc):
                        out.append(('scaler type', p, 4, e))
                        out.append(('scaler buffer', p + 4, 4, e))
                        p += 20 if hdr == fmt.FORMAT_CHANGING else 17
                    out.append(('widths length', p, 4, e))
                    nw = struct.unpack(e + 'L', buf[p:p + 4])[0]
                    p += 4 + 4 * nw
                elif hdr not in (0, 0xFFFFFFFF):
                    out += [('type code', p, 4, e), ('dimension', p + 4, 4, e), ('count', p + 8, 8, e)]
                    code = struct.unpack(e + 'L', buf[p:p + 4])[0]
                    p += 16
                    if code == 0x20:
                        out.append(('string total', p, 8, e))
                        p += 8
                out.append(('property count', p, 4, e))
                npr = struct.unpack(e + 'L', buf[p:p + 4])[0]
                p += 4
                for _p in range(npr):
                    out.append(('property name length', p, 4, e))
                    ln = struct.unpack(e + 'L', buf[p:p + 4])[0]
                    p += 4 + ln
                    out.append(('property type', p, 4, e))
                    code = struct.unpack(e + 'L', buf[p:p + 4])[0]
                    p += 4
                    t = {v[0]: k for k, v in fmt.TYPES.items()}.get(code)
                    if t == 'str':
                        out.append(('property string length', p, 4, e))
                        ln = struct.unpack(e + 'L', buf[p:p + 4])[0]
                        p += 4 + ln
                    elif t == 'bool':
                        p += 1
                    else:
                        p += fmt.size_of(t)
        pos = pos + 28 + next_off if next_off != fmt.UNKNOWN_OFFSET else n
    return out


def garblings(name, size, e):
    vals = [0, (1 << (8 * size)) - 1]
    if name == 'tag':
        return [b'TDSx', b'TDSh', b'\x00\x00\x00\x00']
    if name in ('type code', 'property type', 'scaler type'):
        vals += [0x99, 0x20, 0x44, 0]
    elif name in ('count', 'string total', 'next_off', 'raw_off'):
        vals += [1 << 20, 7]
    elif name in ('object count', 'property count', 'scaler vector length', 'widths length'):
        vals += [3, 1 << 16]
    elif name in ('path length', 'property name length', 'property string length'):
        vals += [1, 1 << 16]
    elif name == 'toc':
        vals += [fmt.TOC_META, fmt.TOC_RAW, fmt.TOC_META | fmt.TOC_RAW | fmt.TOC_NEWOBJ | fmt.TOC_BIGENDIAN,
                 fmt.TOC_META | fmt.TOC_RAW | fmt.TOC_INTERLEAVED]
    elif name == 'dimension':
        vals += [2]
    elif name == 'index header':
        vals += [20, 28, fmt.FORMAT_CHANGING]
    elif name == 'version':
        vals += [1]
    out = []
    for v in vals:
        code = {4: 'L', 8: 'Q'}[size]
        out.append(struct.pack(('<' if name == 'toc' else e) + code, v & ((1 << (8 * size)) - 1)))
    return out


# ------------------------------------------------------------------------------ scenarios
def file_arg(st, kind, name):
    if kind == 'indexpath':
        # the .tdms_index file itself is what the caller names (metadata of archived recordings, a glob over '*.tdms*')
        return SIM_ROOT + name + '_index'
    return st.fs.stream(name) if kind == 'stream' else SIM_ROOT + name


def sc_read(st, kind, w, raw=False):
    lib.TdmsFile.read(file_arg(st, kind, 'w.tdms'))


def sc_read_metadata(st, kind, w):
    lib.TdmsFile.read_metadata(file_arg(st, kind, 'w.tdms'))


def sc_open_close(st, kind, w):
    try:
        tf = lib.TdmsFile.open(file_arg(st, kind, 'w.tdms'))
    except (Exception, KeyboardInterrupt):
        raise NotJudged()
    try:
        for g in tf.groups():
            for c in g.channels():
                c[:]
                if len(c):
                    c[0]
                for _ck in c.data_chunks():
                    break
        for _ck in tf.data_chunks():
            break
    finally:
        tf.close()


def sc_with_open(st, kind, w):
    try:
        ctx = lib.TdmsFile.open(file_arg(st, kind, 'w.tdms'))
    except (Exception, KeyboardInterrupt):
        raise NotJudged()
    with ctx as tf:
        for g in tf.groups():
            for c in g.channels():
                c.read_data(0, 2)
                c[:]


def sc_defragment(st, kind, w):
    src = file_arg(st, kind, 'w.tdms')
    dst = st.fs.stream('d.tdms', 'w+b') if kind == 'stream' else SIM_ROOT + 'd.tdms'
    lib.TdmsWriter.defragment(src, dst, index_file=(st.fs.stream('d.tdms_index', 'w+b') if kind == 'stream' else True))


class NotJudged(Exception):
    """TdmsFile.open itself raised: the statement does not list what happens to descriptors then."""


READ_SCENARIOS = [('read', sc_read), ('read_metadata', sc_read_metadata), ('open-ops-close', sc_open_close),
                  ('with-open', sc_with_open), ('defragment', sc_defragment)]


def judge(st, res, label):
    out = []
    leaked = st.fs.leaked()
    if leaked:
        out.append(V('C20.handle-leak', '%s: library-owned handle(s) still open: %s' % (label, [h.name for h in leaked]),
                     file=('index' if any(h.name.endswith('_index') for h in leaked) else 'data')))
    fc = st.fs.foreign_closed()
    if fc:
        out.append(V('C20.caller-stream-closed', '%s: caller-owned stream(s) closed: %s' % (label, [h.name for h in fc])))
    res.compared += 1
    return out


def run_scenario(name, fn, kind, w, data, index, res, label, fail_at=None, fail_open=None, counts=None, interrupt=False,
                 no_data=False):
    """One execution in a fresh store; returns (violations, number of read events, raised?)."""
    with store(record=False) as st:
        if not no_data:
            st.put('w.tdms', data)
        if index is not None:
            st.put('w.tdms_index', index)
        if fail_at is not None:
            st.fs.fail_reads = {fail_at}
            st.fs.fail_with_interrupt = interrupt
        if fail_open is not None:
            st.fs.fail_opens = {fail_open}
        raised = None
        try:
            fn(st, kind, w)
        except NotJudged:
            return [], st.fs.read_events, 'not-judged'
        except KeyboardInterrupt:
            if not interrupt:
                raise
            raised = 'KeyboardInterrupt'
        except Exception as exc:
            raised = type(exc).__name__
        if counts is not None:
            counts['opens'] = st.fs.open_events
        vs = judge(st, res, '%s(%s%s)%s%s' % (name, kind, ', index' if index is not None else '', label,
                                              ' raised %s' % raised if raised else ' returned'))
        opened = any(h.owner == 'library' for h in st.fs.handles)
        if raised and opened:
            res.nontrivial = True
        return vs, st.fs.read_events, raised


def execute(case):
    res = Result()
    spec = case['spec']
    w = build(spec)
    wo = build(case['other'])
    data, index = w.data, (w.index if case['index'] else None)
    res.sig = [shape_sig(spec) if not any(s.get('layout') == 'daqmx' for s in spec['segments']) else 'daqmx', case['index']]
    if case['index']:
        res.probe('index-present')
    only = case.get('only')          # replay / shrink: (phase, scenario, kind, parameter)

    def want(phase, name=None, kind=None):
        return only is None or (only[0] == phase and (name is None or only[1] == name) and (kind is None or only[2] == kind))

    flds = fields(data)
    for kind in ('path', 'stream') + (('indexpath',) if index is not None else ()):
        for name, fn in READ_SCENARIOS:
            if only is not None and not (only[1] == name and only[2] == kind):
                continue
            if kind == 'indexpath' and name == 'defragment':
                continue
            # (1) fault free
            counts = {}
            vs, nreads, raised = run_scenario(name, fn, kind, w, data, index, res, '', counts=counts)
            res.sub_evals += 1
            for v in vs:
                v.sig.update(phase='fault-free', scenario=name, kind=kind)
            if want('fault-free', name, kind):
                res.violations += vs
            if kind == 'indexpath' and want('fault-free', name, kind):
                # ... and with no data file beside it
                vs, _n, _r = run_scenario(name, fn, kind, w, data, index, res, ' (no data file)', no_data=True)
                res.sub_evals += 1
                res.probe('index-file-alone')
                for v in vs:
                    v.sig.update(phase='fault-free', scenario=name, kind=kind)
                res.violations += vs
            # (1b) every open() the library makes fails in turn (descriptor table full; an index file it may not read)
            if kind in ('path', 'indexpath') and (only is None or only[0] == 'open-fails'):
                for k in (range(counts.get('opens', 0)) if only is None else [only[3]]):
                    vs, _n, raised = run_scenario(name, fn, kind, w, data, index, res, ' with open() call %d failing' % k, fail_open=k)
                    res.sub_evals += 1
                    res.fault('open-fails')
                    if raised and raised != 'not-judged':
                        res.probe('open-fails:raised')
                    for v in vs:
                        v.sig.update(phase='open-fails', scenario=name, kind=kind, param=k)
                    res.violations += vs
                    if len(res.violations) > 3:
                        return res
            # (2) EIO at every read event
            if only is None or only[0] == 'eio':
                ks = range(nreads) if only is None else [only[3]]
                for k in ks:
                    vs, _n, raised = run_scenario(name, fn, kind, w, data, index, res, ' EIO at read event %d' % k, fail_at=k)
                    res.sub_evals += 1
                    res.fault('eio')
                    if raised and raised != 'not-judged':
                        res.probe('eio:read-raised')
                    for v in vs:
                        v.sig.update(phase='eio', scenario=name, kind=kind, param=k)
                    res.violations += vs
                    if len(res.violations) > 3:
                        return res
            # (2b) the caller is interrupted (KeyboardInterrupt) inside every read event in turn
            if only is None or only[0] == 'interrupt':
                ks = range(nreads) if only is None else [only[3]]
                for k in ks:
                    vs, _n, raised = run_scenario(name, fn, kind, w, data, index, res, ' interrupted at read event %d' % k,
                                                  fail_at=k, interrupt=True)
                    res.sub_evals += 1
                    res.fault('interrupt')
                    if raised == 'KeyboardInterrupt':
                        res.probe('interrupt:raised')
                    for v in vs:
                        v.sig.update(phase='interrupt', scenario=name, kind=kind, param=k)
                    res.violations += vs
                    if len(res.violations) > 3:
                        return res
            # (3) garbled fields (not for defragment: it reads through the same code as read)
            if name != 'defragment' and kind != 'indexpath' and (only is None or only[0] == 'corrupt'):
                todo = []
                if only is None:
                    for fi, (fname, off, size, e) in enumerate(flds):
                        for gi, g in enumerate(garblings(fname, size, e)):
                            todo.append((fi, gi))
                else:
                    todo = [tuple(only[3])]
                for fi, gi in todo:
                    fname, off, size, e = flds[fi]
                    g = garblings(fname, size, e)[gi]
                    bad = bytearray(data)
                    bad[off:off + len(g)] = g
                    bidx = index
                    vs, _n, raised = run_scenario(name, fn, kind, w, bytes(bad), bidx, res,
                                                  ' with field %r at %d set to %s' % (fname, off, g.hex()))
                    res.sub_evals += 1
                    res.fault('corrupt')
                    res.probe('corrupt:raised' if raised and raised != 'not-judged' else 'corrupt:survived')
                    for v in vs:
                        v.sig.update(phase='corrupt', scenario=name, kind=kind, field=fname, param=[fi, gi])
                    res.violations += vs
                    if len(res.violations) > 3:
                        return res
                # the same for the index file when there is one
                if index is not None and only is None and kind == 'path':
                    iflds = fields_index(index)
                    for (fname, off, size, e) in iflds:
                        for g in garblings(fname, size, e)[:3]:
                            if fname == 'tag' and g == b'TDSh':
                                continue
                            bad = bytearray(index)
                            bad[off:off + len(g)] = g
                            vs, _n, raised = run_scenario(name, fn, kind, w, data, bytes(bad), res,
                                                          ' with index field %r at %d set to %s' % (fname, off, g.hex()))
                            res.sub_evals += 1
                            res.fault('corrupt-index')
                            for v in vs:
                                v.sig.update(phase='corrupt-index', scenario=name, kind=kind, field=fname)
                            res.violations += vs
                            if len(res.violations) > 3:
                                return res
            # foreign index
            if name != 'defragment' and kind == 'path' and (only is None or only[0] == 'foreign'):
                vs, _n, raised = run_scenario(name, fn, kind, w, data, wo.index, res, ' with the index of another file')
                res.sub_evals += 1
                res.probe('foreign-index')
                res.fault('foreign-index')
                for v in vs:
                    v.sig.update(phase='foreign', scenario=name, kind=kind)
                res.violations += vs
    # (4) close at every position of an op history
    if only is None or only[0] == 'close':
        res.violations += close_histories(case, w, data, index, res, only)
    # (5) writer with-block
    if only is None or only[0] == 'writer':
        res.violations += writer_block(case, res)
    # (6) RealFS sample: /proc/self/fd
    if only is None or only[0] == 'realfs':
        res.violations += realfs_check(case, w, data, index, res)
    # (6b) a lazily opened TdmsFile on a caller's stream is dropped without close(): garbage collection must not close
    # what the caller owns
    if only is None or only[0] == 'gc':
        import gc
        res.sub_evals += 1
        with store(record=False) as st:
            st.put('w.tdms', data)
            try:
                tf = lib.TdmsFile.open(st.fs.stream('w.tdms'))
                chans = [c for g in tf.groups() for c in g.channels()]
                for c in chans[:2]:
                    try:
                        c[:]
                    except Exception:
                        pass
                del tf, chans
                try:
                    del c
                except NameError:
                    pass
                gc.collect()
                res.probe('dropped-without-close')
                fc = st.fs.foreign_closed()
                if fc:
                    res.violations.append(V('C20.caller-stream-closed', 'a TdmsFile opened on a caller-owned stream was dropped '
                                            'without close(); garbage collection closed the caller\'s stream(s): %s' % [h.name for h in fc],
                                            phase='gc'))
            except Exception:
                pass
    # (7) several TdmsFile objects with overlapping lifetimes on different files
    if only is None or only[0] == 'overlap':
        res.violations += overlap(case, w, wo, index, res, only)
    res.ev('violations', [v.as_dict() for v in res.violations][:10], res.sub_evals)
    return res


OVERLAP_PLANS = [(ka, kb, inner, order) for ka in ('stream', 'path') for kb in ('stream', 'path')
                 for inner in ('open', 'read', 'read_metadata') for order in ('BA', 'AB')
                 if inner == 'open' or order == 'BA']


def overlap(case, w, wo, index, res, only):
    """File A is lazily open while file B is opened / read / closed: closing or finishing one must close exactly its own
    descriptors, never the caller's streams, and must leave the other one usable."""
    out = []
    plans = list(enumerate(OVERLAP_PLANS)) if only is None else [(only[3], OVERLAP_PLANS[only[3]])]
    worlds = {'a': w, 'b': wo}

    def usable(tf, world, who, label):
        fulls = {p: _lazy.model_full(c, False) for p, c in world.chans.items()}
        for path, full in fulls.items():
            if full[0] == 'dict' or world.chans[path].type is None:
                continue
            try:
                got = ops.norm(ops.chan(tf, world, path)[:])
            except Exception as exc:
                return [V('C20.other-file-unusable', '%s: reading %s from the still open file %s raised %s: %s' % (
                    label, path, who, type(exc).__name__, exc), exc=type(exc).__name__)]
            if got[0] in ('arr', 'strs', 'rawts') and not ops.agree(got, full):
                return [V('C20.other-file-unusable', '%s: the still open file %s reads %s as %s, the file holds %s' % (
                    label, who, path, _lazy._short(got), _lazy._short(full)))]
            break
        return []

    def own_check(st, closed_names, label):
        vs = []
        bad = [h for h in st.fs.leaked() if any(h.name.startswith(n) for n in closed_names)]
        if bad:
            vs.append(V('C20.handle-leak', '%s: library-owned handle(s) still open: %s' % (label, [h.name for h in bad]),
                        file='data'))
        fc = st.fs.foreign_closed()
        if fc:
            vs.append(V('C20.caller-stream-closed', '%s: caller-owned stream(s) closed: %s' % (label, [h.name for h in fc])))
        res.compared += 1
        return vs

    for pi, (ka, kb, inner, order) in plans:
        res.sub_evals += 1
        with store(record=False) as st:
            st.put('a.tdms', w.data)
            st.put('b.tdms', wo.data)
            if index is not None:
                st.put('a.tdms_index', index)
            label = 'A=open(%s) then B=%s(%s), %s' % (ka, inner, kb, 'B finished/closed first' if order == 'BA' else 'A closed first')
            try:
                ta = lib.TdmsFile.open(file_arg(st, ka, 'a.tdms'))
            except Exception:
                continue
            vs = []
            tb = None
            try:
                try:
                    if inner == 'open':
                        tb = lib.TdmsFile.open(file_arg(st, kb, 'b.tdms'))
                    elif inner == 'read':
                        lib.TdmsFile.read(file_arg(st, kb, 'b.tdms'))
                    else:
                        lib.TdmsFile.read_metadata(file_arg(st, kb, 'b.tdms'))
                except Exception:
                    pass
                res.probe('overlapping-files')
                if inner != 'open' or tb is None:
                    vs += own_check(st, ['b.tdms'], label + ': after B returned')
                    vs += usable(ta, w, 'A', label + ': after B returned')
                    ta.close()
                else:
                    first, second = (tb, ta) if order == 'BA' else (ta, tb)
                    fname, sname = ('b', 'a') if order == 'BA' else ('a', 'b')
                    first.close()
                    vs += own_check(st, [fname + '.tdms'], label + ': after the first close()')
                    vs += usable(second, worlds[sname], sname.upper(), label + ': after the first close()')
                    second.close()
                vs += judge(st, res, label + ': after both were closed')
            finally:
                for t in (ta, tb):
                    try:
                        if t is not None:
                            t.close()
                    except Exception:
                        pass
            for v in vs:
                v.sig.update(phase='overlap', param=pi)
            out += vs
            if len(out) > 3:
                return out
    return out


def fields_index(index):
    """fields() for an index file: segments follow each other at lead-in + raw_off."""
    out = []
    pos = 0
    n = len(index)
    while pos + 28 <= n:
        toc = struct.unpack('<l', index[pos + 4:pos + 8])[0]
        e = '>' if toc & fmt.TOC_BIGENDIAN else '<'
        _v, next_off, raw_off = struct.unpack(e + 'lQQ', index[pos + 8:pos + 28])
        out += [('tag', pos, 4, e), ('toc', pos + 4, 4, '<'), ('next_off', pos + 12, 8, e), ('raw_off', pos + 20, 8, e)]
        if toc & fmt.TOC_META:
            out.append(('object count', pos + 28, 4, e))
        pos += 28 + raw_off
    return out


def close_histories(case, w, data, index, res, only):
    out = []
    acts = case['actions']
    positions = range(len(acts) + 1) if only is None else [only[3]]
    for kind in ('path', 'stream'):
        if only is not None and only[2] != kind:
            continue
        for cp in positions:
            res.sub_evals += 1
            with store(record=False) as st:
                st.put('w.tdms', data)
                if index is not None:
                    st.put('w.tdms_index', index)
                try:
                    tf = lib.TdmsFile.open(file_arg(st, kind, 'w.tdms'))
                except Exception:
                    break
                fulls = {p: _lazy.model_full(c, False) for p, c in w.chans.items()}
                gens = {}
                closed = False
                for step, a in enumerate(acts + [None]):
                    if step == cp:
                        if gens:
                            res.probe('close-with-suspended-generator')
                        tf.close()
                        vs = judge(st, res, 'close() at position %d of the history (%s)' % (cp, kind))
                        try:
                            tf.close()         # may be called repeatedly
                        except Exception as exc:
                            vs.append(V('C20.double-close-raises', 'second close() raised %s: %s' % (type(exc).__name__, exc)))
                        vs += judge(st, res, 'second close() (%s)' % kind)
                        for v in vs:
                            v.sig.update(phase='close', kind=kind, param=cp)
                        out += vs
                        closed = True
                        res.fault('close')
                        # the caller owns the storage again and reuses it: whatever a later read returns must not come
                        # from the file (a read that needs the file has to raise once it is closed)
                        junk = random.Random(case['seed'] + cp).randbytes(len(data))
                        st.fs.files['w.tdms'][:] = junk
                        res.fault('storage-reused-after-close')
                    if a is None:
                        break
                    try:
                        if a['a'] == 'new':
                            gens[a['id']] = [make_gen(tf, w, a), a, 0]
                            continue
                        if a['a'] == 'drop':
                            gens.pop(a['id'], None)
                            continue
                        if a['a'] == 'next':
                            g = gens.get(a['id'])
                            if g is None:
                                continue
                            item = next(g[0])
                            if closed:
                                # returning after close is only acceptable for values that need no file; a
                                # generator needs the file, so anything it yields must still be right
                                got = norm_item(g[1]['kind'], item, w)
                                if not generator_item_ok(g[1], got, w, fulls):
                                    out.append(V('C20.stale-after-close', 'next() on a %s generator after close() returned wrong data %s' % (
                                        g[1]['kind'], _lazy._short(got)), phase='close', kind=kind, param=cp))
                            continue
                        op = {k: v for k, v in a.items() if k != 'a'}
                        full = fulls[op['ch']]
                        if full[0] == 'dict':
                            continue
                        v, g_, exc = _lazy.check_op(tf, w, op, full, 'C20.after-close' if closed else 'C20.before-close', 'lazy')
                        if closed:
                            exp = ops.expected_indices(_lazy.full_len(full), op)
                            if exc is not None:
                                res.probe('read-after-close:raised')
                            elif g_ is not None:
                                res.probe('read-after-close:cache-hit')
                            if v is not None and exc is None and v.tag.endswith('.value'):
                                v.tag = 'C20.stale-after-close'
                                v.sig.update(phase='close', kind=kind, param=cp)
                                out.append(v)
                    except StopIteration:
                        gens.pop(a.get('id'), None)
                    except Exception:
                        pass          # loud failure is what the statement asks for
                if not closed:
                    tf.close()
            if len(out) > 3:
                return out
    return out


def generator_item_ok(a, got, w, fulls):
    """A yielded item must consist of model data at its stated offsets."""
    def ok(path, off, d):
        full = fulls.get(path)
        if full is None or d[0] in ('exc', 'dict') or full[0] == 'dict':
            return True
        n = _lazy.full_len(d) if d[0] in ('arr', 'strs', 'rawts') else 0
        if n == 0:
            return True
        if off + n > _lazy.full_len(full):
            return False
        return ops.agree(d, _lazy.take_norm(full, range(off, off + n)))
    if a['kind'] == 'file':
        return all(ok(p, off, d) for (p, off, d) in got)
    if a['kind'] == 'chan':
        return ok(a['ch'], got[0], got[1])
    return True


def writer_block(case, res):
    out = []
    prog = case['program']
    for sink in ('simpath', 'simstream'):
        nwrites = 0
        # boom: None = normal exit, 'exc' = an exception raised inside the with-block, int k = the k-th write fails
        # with ENOSPC (full disk) and the error leaves the with-block
        plans = [None, 'exc', 'fsync']        # 'fsync': the destination is not a regular file, fsync (if the writer syncs) is refused
        pi = 0
        while pi < len(plans):
            boom = plans[pi]
            pi += 1
            res.sub_evals += 1
            with store(record=False) as st:
                if isinstance(boom, int):
                    st.fs.fail_writes = {boom}
                if isinstance(boom, tuple) and boom[0] == 'open':
                    st.fs.fail_opens = {boom[1]}
                if boom == 'fsync':
                    st.fs.fail_fsync = True
                nptdms = lib.nptdms
                if sink == 'simpath':
                    target, idx = SIM_ROOT + 'o.tdms', True
                else:
                    target, idx = st.fs.stream('o.tdms', 'w+b'), st.fs.stream('o.tdms_index', 'w+b')
                raised = None
                try:
                    with nptdms.TdmsWriter(target, index_file=idx) as wr:
                        for call in prog['sessions'][0]:
                            try:
                                wr.write_segment(wgen.make_objects(nptdms, call))
                            except OSError:
                                raise
                            except Exception:
                                pass
                        if boom == 'exc':
                            res.probe('writer-block-raises')
                            raise KeyError('exception inside the with-block')
                except KeyError:
                    raised = 'KeyError'
                except OSError:
                    raised = 'OSError'
                    res.probe('writer-block-enospc')
                    res.fault('enospc')
                if boom is None:
                    nwrites = st.fs.write_events
                    plans += list(range(nwrites))
                    plans += [('open', k) for k in range(st.fs.open_events)]
                if isinstance(boom, tuple) and boom[0] == 'open' and raised:
                    res.probe('writer-open-fails')
                    res.fault('open-fails')
                vs = judge(st, res, 'TdmsWriter with-block (%s)%s' % (sink, '' if boom is None else (
                    ' left by an exception' if boom == 'exc' else (' with fsync refused' if boom == 'fsync' else ' with open() call %d failing' % boom[1] if isinstance(boom, tuple)
                                                                  else ' with ENOSPC at write %d' % boom))))
                for v in vs:
                    v.sig.update(phase='writer', kind=sink)
                out += vs
        # one TdmsWriter object entered several times (an append-mode logger re-uses its writer): after EVERY with-block
        # its descriptors are closed, whether the block ended normally or by an exception
        res.sub_evals += 1
        with store(record=False) as st:
            nptdms = lib.nptdms
            if sink == 'simpath':
                target, idx = SIM_ROOT + 'o.tdms', True
            else:
                target, idx = st.fs.stream('o.tdms', 'w+b'), st.fs.stream('o.tdms_index', 'w+b')
            wr = nptdms.TdmsWriter(target, mode='a', index_file=idx)
            calls = prog['sessions'][0]
            for round_no in range(3):
                try:
                    with wr:
                        for call in calls[:2]:
                            try:
                                wr.write_segment(wgen.make_objects(nptdms, call))
                            except Exception:
                                pass
                        if round_no == 2:
                            raise KeyError('exception inside the with-block')
                except KeyError:
                    pass
                res.probe('writer-re-entered')
                vs = judge(st, res, 'with-block no. %d of one TdmsWriter object (%s)' % (round_no + 1, sink))
                for v in vs:
                    v.sig.update(phase='writer', kind=sink)
                out += vs
                if vs:
                    break
        # a second writer appends with the other format version (a file begun with version 4713, continued by a program that
        # uses the default): whatever the library makes of that - it may well refuse -, no descriptor stays open while the
        # caller still holds the writer and the exception
        if sink == 'simpath':
            res.sub_evals += 1
            with store(record=False) as st:
                nptdms = lib.nptdms
                calls = prog['sessions'][0]
                with nptdms.TdmsWriter(SIM_ROOT + 'o.tdms', version=4713, index_file=True) as first:
                    for call in calls[:1]:
                        try:
                            first.write_segment(wgen.make_objects(nptdms, call))
                        except Exception:
                            pass
                wr2 = nptdms.TdmsWriter(SIM_ROOT + 'o.tdms', mode='a', version=4712, index_file=True)
                kept = None
                try:
                    with wr2:
                        for call in calls[:1]:
                            try:
                                wr2.write_segment(wgen.make_objects(nptdms, call))
                            except Exception:
                                pass
                except Exception as exc:
                    kept = exc
                res.probe('append-with-other-version')
                vs = judge(st, res, 'with-block of a writer appending with another format version%s' % (
                    ' (refused: %s)' % type(kept).__name__ if kept is not None else ''))
                for v in vs:
                    v.sig.update(phase='writer', kind=sink)
                out += vs
                del wr2, kept
    return out


def realfs_check(case, w, data, index, res):
    """A sample on real files: /proc/self/fd before and after, with the exception object still referenced."""
    out = []
    rng = random.Random(case['seed'])
    flds = fields(data)
    with store(record=False) as st:
        d = st.realdir()
        for trial in range(4):
            res.sub_evals += 1
            bad = bytearray(data)
            label = 'intact file'
            if trial and flds:
                fname, off, size, e = rng.choice(flds)
                g = rng.choice(garblings(fname, size, e))
                bad[off:off + len(g)] = g
                label = 'field %r at %d set to %s' % (fname, off, g.hex())
            p = os.path.join(d, 'r%d.tdms' % trial)
            with open(p, 'wb') as f:
                f.write(bad)
            if index is not None:
                with open(p + '_index', 'wb') as f:
                    f.write(index)
            for name, call in (('read', lambda: lib.TdmsFile.read(p)), ('read_metadata', lambda: lib.TdmsFile.read_metadata(p))):
                before = open_fds()
                keep = None
                try:
                    keep = call()
                except Exception as exc:
                    keep = exc          # keep the traceback (and so every frame) alive: no refcount-driven close
                after = open_fds()
                res.probe('realfs-fd-check')
                if after - before:
                    out.append(V('C20.fd-leak', 'TdmsFile.%s on a real file (%s%s): descriptors %s still open' % (
                        name, label, ', index' if index is not None else '', sorted(after - before)), phase='realfs'))
                del keep
    return out


def narrow(case, violation):
    """Restrict the case to the phase / scenario / fault point the violation's signature names."""
    sig = violation['sig']
    if 'phase' not in sig:
        return None
    c = dict(case)
    c['only'] = [sig['phase'], sig.get('scenario'), sig.get('kind'), sig.get('param')]
    return c


def shrink_candidates(case):
    from ..shrink import spec_candidates, list_candidates
    for a in list_candidates(case['actions']):
        c = dict(case)
        c['actions'] = a
        yield c
    if case['index']:
        c = dict(case)
        c['index'] = False
        yield c
    if case.get('only') is None or case['only'][0] not in ('corrupt', 'eio'):
        for sp in spec_candidates(case['spec']):
            c = dict(case)
            c['spec'] = sp
            c['actions'] = [a for a in case['actions'] if a.get('ch') is None or a['ch'] in sp['names']]
            yield c


def sample(case):
    w = build(case['spec'])
    return {'segments': shape_sig(case['spec']) if not any(s.get('layout') == 'daqmx' for s in case['spec']['segments']) else 'daqmx',
            'index': case['index'], 'file_bytes': len(w.data), 'structural_fields': len(fields(w.data)),
            'history': case['actions'][:8]}
