"""C01 - reading returns exactly the content the file encodes.

Fault-free configuration: stub producer + reference model; the only nondeterminism the read
path meets is the stream-delivery schedule (short readinto) and the backend."""
import numpy as np

from .. import fmt, gen, lib, compare
from ..backends import store, ALL_BACKENDS
from ..compare import V
from ..core import Result, digest
from ..world import build

PROP = 'C01'
LEVEL = 'exploration'
N = {'quick': 55000, 'thorough': 3000000}
RULE = ('worlds drawn from the seeded spec generator (1-6 segments, rarely 100+; 0-5 channels over the 17 '
        'readable types; contiguous/interleaved; 0-4 chunks; header inheritance choices; properties; '
        'both byte orders), encoded by the independent stub and read with TdmsFile.read through a seeded '
        'backend and readinto-delivery schedule. distinct = distinct (segment shape sequence, backend, '
        'delivery mode) signatures; non-trivial = at least one channel with >=1 value was compared')


def opts(tier):
    o = gen.Opts()
    o.huge_p = 0.003
    o.huge_classes = ['k64', 'm1', 'm1', 'm16']
    o.long_run_p = 0.006
    o.short_last_p = 0.05
    o.declared_huge_p = 0.01
    o.equal_shapes_p = 0.15
    return gen.deepen(o, tier)


def generate(rng, tier):
    o = opts(tier)
    raw_ts = rng.random() < 0.5
    if raw_ts and rng.random() < 0.5:
        o.ts_range = None
    spec, _w, _tries = gen.gen_world(rng, o)
    r = rng.random()
    backend = 'simstream' if r < 0.5 else rng.choice(ALL_BACKENDS)
    short = rng.getrandbits(32) if (backend in ('simstream', 'simpath') and rng.random() < 0.6) else None
    case = {'spec': spec, 'backend': backend, 'short_seed': short, 'debug_log': rng.random() < 0.1,
            'raw_ts': raw_ts, 'pathlib': rng.random() < 0.3, 'threads': None, 'rewrite': rng.random() < 0.06,
            'by_keyword': rng.random() < 0.15}
    if len(_w.data) < 3000 and rng.random() < 0.04:
        # two threads, each reading its own file with TdmsFile.read (a thread pool mapping TdmsFile.read over paths):
        # nothing is shared by the caller; the interleaving is decided by a seeded scheduler
        other = gen.sibling(rng, spec)
        other = other[0] if other is not None else gen.gen_world(rng, o)[0]
        if len(build(other).data) < 3000:
            case['threads'] = {'seed': rng.getrandbits(32), 'switch_p': rng.choice([0.02, 0.1, 0.3]), 'other': other}
    return case


def shape_sig(spec):
    return [(s.get('endian'), s.get('layout'), s.get('meta'), s.get('new_obj_list'), s.get('chunks'),
             s.get('pad', 0) > 0, s.get('next_offset', 'explicit'), s.get('short_last'),
             [(L['index'], L.get('type'), L.get('count'), len(L.get('props', []))) for L in s.get('listed', [])])
            for s in spec['segments']]


def cell_probes(res, w):
    for s in w.segs:
        if s.chunks == 0:
            continue
        for (p, has, idx) in s.active:
            if has:
                res.probe('cell:%s:%s:%s' % (idx['type'], s.layout, 'multi' if s.chunks > 1 else 'single'))
                if idx['count'] == 0:
                    res.probe('zero-length-chunk-object')
    if len(w.segs) > 100:
        res.probe('over-100-segments')
    if any(s.get('pad') for s in w.spec['segments']):
        res.probe('padding')
    if set(w.all_groups()) - set(w.declared_groups()):
        res.probe('undeclared-group')
    if any(not s.has_meta for s in w.segs):
        res.probe('segment-without-metadata')
    if any(sg.get('short_last') for sg in w.spec['segments']):
        res.probe('stated-short-final-chunk')


def compare_channels(tf, w, raw_ts, res, tagp='C01'):
    out = []
    for path, ch in w.chans.items():
        try:
            c = compare.lib_channel(tf, w, path)
        except KeyError:
            out.append(V(tagp + '.channel-missing', path))
            continue
        if len(c) != ch.count:
            out.append(V(tagp + '.len', '%s: len %d, expected %d' % (path, len(c), ch.count), type=ch.type))
        if ch.type is None:
            continue
        try:
            data = c[:]
        except Exception as exc:
            out.append(V(tagp + '.data-raises', '%s[:] (%s): %s: %s' % (path, ch.type, type(exc).__name__, exc),
                         type=ch.type, exc=type(exc).__name__))
            continue
        res.compared += 1
        if ch.count > 0:
            res.nontrivial = True
        if ch.type == 'daqmx':
            continue
        if not compare.same_type(np.asarray(data).dtype, ch.type, raw_ts) and not (ch.type == 'str' and ch.count == 0):
            out.append(V(tagp + '.dtype', '%s: dtype %s for type %s' % (path, np.asarray(data).dtype, ch.type),
                         type=ch.type))
            continue
        m = compare.data_mismatch(data, ch.type, ch.values, raw_ts)
        if m:
            out.append(V(tagp + '.data', '%s (%s): %s' % (path, ch.type, m), type=ch.type))
    return out


def execute(case):
    res = Result()
    spec = case['spec']
    w = build(spec)
    res.sig = [shape_sig(spec), case['backend'], case['short_seed'] is not None, case['raw_ts']]
    res.backend = case['backend']
    cell_probes(res, w)
    with store(short_seed=case['short_seed']) as st, lib.knobs(debug_log=case['debug_log']):
        real = case['backend'] in ('realpath', 'realfile', 'rawfile', 'gzipfile')
        st.put('w.tdms', w.data)
        src = st.source(case['backend'], 'w.tdms', as_pathlib=case.get('pathlib', False))
        try:
            if case.get('by_keyword'):
                # the documented signature is read(file, raw_timestamps=False, memmap_dir=None): callers name the argument
                res.probe('file-passed-by-keyword')
                tf = lib.TdmsFile.read(file=src, raw_timestamps=case['raw_ts'])
            else:
                tf = lib.TdmsFile.read(src, raw_timestamps=case['raw_ts'])
        except Exception as exc:
            layouts = sorted(set((s.layout, idx['type']) for s in w.segs for (p, h, idx) in s.active if h))
            res.violations.append(V('C01.read-raises', '%s: %s' % (type(exc).__name__, exc),
                                    exc=type(exc).__name__, msg=str(exc)[:80]))
            res.ev('read', 'raise', type(exc).__name__, str(layouts))
            res.io_events = st.fs.seq
            return res
        res.violations += compare.check_structure(tf, w, case['raw_ts'])
        res.violations += compare_channels(tf, w, case['raw_ts'], res)
        if case.get('threads') and not res.violations:
            res.violations += concurrent_file_reads(case, w, res)
        if case.get('rewrite') and not res.violations:
            # the documented copy recipe: the objects TdmsFile.read returned are handed to TdmsWriter.write_segment; what
            # the read returned must still be what the stream encodes afterwards
            import io
            res.probe('objects-handed-to-the-writer')
            try:
                groups = tf.groups()
                chans = [c for g in groups for c in g.channels() if w.chans.get(c.path) is not None
                         and w.chans[c.path].type not in (None, 'daqmx')]
                with lib.TdmsWriter(io.BytesIO()) as wr:
                    wr.write_segment([lib.nptdms.RootObject(tf.properties)] + groups + chans)
            except Exception as exc:
                res.ev('rewrite-raises', type(exc).__name__)        # what the writer accepts is C07's / C10's business
            vs = compare.check_structure(tf, w, case['raw_ts']) + compare_channels(tf, w, case['raw_ts'], res)
            for v in vs:
                v.detail = 'after the objects were handed to TdmsWriter.write_segment: %s' % (v.detail,)
                v.sig['after_rewrite'] = True
            res.violations += vs
        res.io_events = st.fs.seq
        res.steps = 1
        compare_faults = st.fs.faults_fired
        for k, v in compare_faults.items():
            res.fault(k, v)
        if not real:
            res.ev('io', len(st.fs.log), digest(st.fs.log))
        res.ev('read', [g.name for g in tf.groups()],
               [(c.path, len(c), str(c.dtype)) for g in tf.groups() for c in g.channels()])
    res.ev('violations', [v.as_dict() for v in res.violations])
    return res


def concurrent_file_reads(case, w, res):
    import io
    import os
    from ..threads import Interleaver, InterleaveError
    th = case['threads']
    w2 = build(th['other'])
    worlds = [w, w2]

    def reader(wx):
        def run():
            tf = lib.TdmsFile.read(io.BytesIO(wx.data), raw_timestamps=case['raw_ts'])
            out = {}
            for path, ch in wx.chans.items():
                if ch.type in (None, 'daqmx'):
                    continue
                out[path] = np.asarray(compare.lib_channel(tf, wx, path)[:])
            return out
        return run
    il = Interleaver(th['seed'], switch_p=th['switch_p'], trace_prefix=os.path.dirname(lib.nptdms.__file__), max_switches=2000)
    try:
        got = il.run([reader(wx) for wx in worlds])
    except InterleaveError as exc:
        # a thread parked while it holds a real lock blocks the others: an artefact of forced pre-emption, not a verdict
        res.probe('interleaver-gave-up')
        res.skipped_ops += 1
        return []
    res.probe('concurrent-file-reads')
    res.steps += il.points
    res.ev('threads', il.trace[:40], il.points)
    out = []
    for k, (wx, r) in enumerate(zip(worlds, got)):
        if r[0] == 'exc':
            out.append(V('C01.concurrent', 'TdmsFile.read of file %d raised %s: %s while another thread was reading another file '
                         '(%d switches); alone it succeeds' % (k, type(r[1]).__name__, r[1], il.switches), exc=type(r[1]).__name__))
            continue
        for path, data in r[1].items():
            ch = wx.chans[path]
            if not compare.same_type(data.dtype, ch.type, case['raw_ts']) and not (ch.type == 'str' and ch.count == 0):
                continue
            m = compare.data_mismatch(data, ch.type, ch.values, case['raw_ts'])
            if m:
                out.append(V('C01.concurrent', 'file %d, %s (%s): %s - read while another thread was reading another file '
                             '(%d switches)' % (k, path, ch.type, m, il.switches), type=ch.type))
                break
    return out


def shrink_candidates(case):
    from ..shrink import spec_candidates
    if case.get('threads'):
        c = dict(case)
        c['threads'] = None
        yield c
    if case.get('rewrite'):
        c = dict(case)
        c['rewrite'] = False
        yield c
    if case['short_seed'] is not None:
        c = dict(case)
        c['short_seed'] = None
        yield c
    if case['backend'] != 'simstream':
        c = dict(case)
        c['backend'] = 'simstream'
        yield c
    for k in ('debug_log', 'pathlib'):
        if case.get(k):
            c = dict(case)
            c[k] = False
            yield c
    for sp in spec_candidates(case['spec']):
        c = dict(case)
        c['spec'] = sp
        yield c


def sample(case):
    return {'segments': shape_sig(case['spec']), 'backend': case['backend'],
            'short_readinto': case['short_seed'] is not None, 'raw_timestamps': case['raw_ts']}
