"""C13 - scaled data is the dataflow evaluation of the NI_Scale definitions.

Per-operation invariants on op histories over eager and lazy handles: purity (raw data
untouched by scaled reads, cache hits and chunk iteration), elementwise (window of scaled ==
scaled window), mode (lazy == eager), lookup order, plus equality with an independent exact
reference evaluator."""
import math
import struct
from fractions import Fraction

import os

import numpy as np

from .. import gen, lib, ops, fmt, scalemodel
from ..backends import store
from ..compare import V
from ..core import Result, digest
from ..world import build, SpecError
from . import _lazy
from .c01 import shape_sig

PROP = 'C13'
LEVEL = 'exploration'
N = {'quick': 36000, 'thorough': 1200000}
RULE = ('seeded worlds whose numeric channels carry NI_Scale graphs of depth 1-4 over Linear / Polynomial / Table / '
        'Add / Subtract with arbitrary input-source wiring (several scales may read the raw data), with or without '
        'NI_Number_Of_Scales and explicit input sources, placed on channel / group / root, optional '
        'NI_Scaling_Status="scaled" shadowing, and DAQmx worlds with scale chains on top of raw scalers; per world an '
        'op history on an eager and a lazy handle (raw snapshot, scaled full read, windows, integer indices, chunk '
        'iteration, raw snapshot again). distinct = (scale graph shape, placement, raw types, segment shapes); '
        'non-trivial = a scaled channel with >= 1 value was evaluated')
EXPECTED_PROBES = ['concurrent-readers:switched', 'placement:channel', 'placement:group', 'placement:root', 'scale:Linear', 'scale:Polynomial', 'scale:Table',
                   'scale:Add', 'scale:Subtract', 'status-scaled-shadowing', 'no-number-of-scales', 'daqmx-scaled',
                   'several-scales-read-raw']


def small_values(rng, t, n):
    if t in ('f32', 'f64'):
        code = 'f' if t == 'f32' else 'd'
        return b''.join(struct.pack('<' + code, rng.randint(-400, 400) / 4.0) for _ in range(n))
    lo, hi = fmt.INT_RANGE[t]
    return b''.join(struct.pack('<' + fmt.PROP_STRUCT[t], rng.randint(max(lo, -100), min(hi, 100))) for _ in range(n))


def _first_listing(spec, path):
    for sg in spec['segments']:
        for L in sg.get('listed', []):
            if L['path'] == path:
                return L
    for sg in spec['segments']:
        if sg.get('meta', True):
            L = {'path': path, 'index': 'none', 'props': []}
            sg.setdefault('listed', []).append(L)
            return L
    return None


def add_scaling(rng, spec, ctype, p=1.0):
    """Adds NI_Scale properties to a stub spec (in place) and makes the raw data of scaled channels small."""
    names = spec['names']
    chans = [q for q in ctype if q in names]
    scaled = {}       # insertion-ordered: iteration order must not depend on string hashing
    for path in chans:
        if ctype[path] not in scalemodel.SCALABLE or rng.random() >= p:
            continue
        g = names[path][0]
        r = rng.random()
        level = path
        if r < 0.15:
            level = fmt.quote_path(g)
            under = [q for q in chans if names[q][0] == g]
        elif r < 0.3:
            level = '/'
            under = list(chans)
        else:
            under = [path]
        if level != path and any(ctype[q] is not None and ctype[q] not in scalemodel.SCALABLE for q in under):
            level = path
            under = [path]
        if level not in names:
            names[level] = [g] if level != '/' else []
        L = _first_listing(spec, level)
        if L is None or any(pr[0].startswith('NI_Scale') or pr[0].startswith('NI_Number') for pr in L['props']):
            continue
        scales = scalemodel.gen_scales(rng)
        L['props'] = [pr for pr in L['props'] if not pr[0].startswith('NI_')] + scalemodel.scale_props(
            scales, with_count=rng.random() < 0.6, status=rng.choice([None, 'unscaled']), order=rng.choice(['asc', 'asc', 'desc']))
        for q in under:
            scaled[q] = True
        if level != path and rng.random() < 0.3:
            # the channel itself claims to be already scaled: the next level in scope applies
            Lc = _first_listing(spec, path)
            if Lc is not None and not any(pr[0].startswith('NI_') for pr in Lc['props']):
                shadow = scalemodel.gen_scales(rng, depth=1)
                Lc['props'] = Lc['props'] + scalemodel.scale_props(shadow, with_count=True, status='scaled')
    if rng.random() < 0.25:
        # an outer scope carries scale definitions that cannot be built (a half-edited group, a template left on the root
        # object) while every channel below it has its own complete graph: the channel's scope is the one that counts
        own = set()
        for q in chans:
            Lq = _first_listing(spec, q)
            if Lq is not None and any(pr[0].startswith('NI_Scale[') for pr in Lq['props']) and not any(
                    pr[0] == 'NI_Scaling_Status' and pr[2] == 'scaled' for pr in Lq['props']):
                own.add(q)
        levels = [('/', list(chans))] + [(fmt.quote_path(g), [q for q in chans if names[q][0] == g])
                                        for g in sorted(set(names[q][0] for q in chans))]
        rng.shuffle(levels)
        for level, under in levels:
            if not under or any(q not in own for q in under) or level not in names:
                continue
            L = _first_listing(spec, level)
            if L is None or any(pr[0].startswith('NI_') for pr in L['props']):
                continue
            if rng.random() < 0.5:
                junk = [['NI_Number_Of_Scales', 'u32', 1], ['NI_Scale[0]_Scale_Type', 'str', 'Linear']]      # no slope, no intercept
            else:
                junk = [['NI_Number_Of_Scales', 'u32', 1], ['NI_Scale[0]_Scale_Type', 'str', 'Table'],
                        ['NI_Scale[0]_Table_Scaled_Values_Size', 'u32', 3], ['NI_Scale[0]_Table_Pre_Scaled_Values_Size', 'u32', 3]] + [
                    ['NI_Scale[0]_Table_Scaled_Values[%d]' % i, 'f64', scalemodel.f64(v)] for i, v in enumerate([1.0, 1.0, 2.0])] + [
                    ['NI_Scale[0]_Table_Pre_Scaled_Values[%d]' % i, 'f64', scalemodel.f64(v)] for i, v in enumerate([0.0, 1.0, 2.0])]
            L['props'] = L['props'] + junk
            break
    for path in scaled:
        t = ctype[path]
        if t not in scalemodel.SCALABLE:
            continue
        size = fmt.size_of(t)
        for sg in spec['segments']:
            d = sg.get('data', {}).get(path)
            if d:
                sg['data'][path] = [small_values(rng, t, len(c) // size) for c in d]
    return scaled


def opts(tier):
    o = gen.Opts()
    o.max_segments = 5
    o.max_channels = 4
    o.types = scalemodel.SCALABLE + ['str', 'ts', 'bool']
    o.many_segments_p = 0.0
    o.nasty_names = 0.05
    o.typeless_p = 0.05
    def scaling(rng, spec, ctype):
        # a share of channels gets one sensor scale (RTD / Thermocouple / Thermistor / Strain): no reference
        # formula here (C17/C18), but purity, elementwise and lazy == eager are judged for them too
        from .c14 import add_sensor
        add_sensor(rng, spec, ctype, 0.15)
        add_scaling(rng, spec, ctype, p=0.8)
    o.scaling = scaling
    return gen.deepen(o, tier)


def daqmx_scaled_world(rng):
    from .c11 import maybe_daqmx_world
    for _ in range(10):
        spec = maybe_daqmx_world(rng, 1.0)
        if spec is None:
            continue
        ok = True
        for sg in spec['segments']:
            for L in sg.get('listed', []):
                if L.get('type') == 'daqmx':
                    ids = [s['id'] for s in L['daqmx']['scalers']]
                    if any(s['type'] in ('f32', 'f64', 'u64', 'i64') for s in L['daqmx']['scalers']):
                        ok = False
                    if L['props']:
                        scales = scalemodel.gen_scales(rng, daqmx_ids=ids)
                        L['props'] = scalemodel.scale_props(scales, with_count=True, status='unscaled')
        if ok:
            try:
                build(spec)
                return spec
            except SpecError:
                continue
    return None


def generate(rng, tier):
    spec = None
    if rng.random() < 0.15:
        spec = daqmx_scaled_world(rng)
    if spec is None:
        spec, _w, _ = gen.gen_world(rng, opts(tier))
    w = build(spec)
    hist = []
    for path, ch in w.chans.items():
        n = ch.count
        for _ in range(rng.randint(2, 5)):
            k = rng.random()
            if k < 0.4:
                off = rng.randint(0, n + 1)
                hist.append({'op': 'read_data', 'ch': path, 'offset': off, 'length': rng.choice([None, 0, rng.randint(0, n + 1)])})
            elif k < 0.7 and n:
                hist.append({'op': 'index', 'ch': path, 'i': rng.randint(-n, n - 1)})
            elif k < 0.85:
                hist.append({'op': 'slice', 'ch': path, 'start': rng.choice([None, rng.randint(-n, n)]),
                             'stop': rng.choice([None, rng.randint(-n, n)]), 'step': rng.choice([None, 1, 2, -1])})
            else:
                hist.append({'op': 'chunks', 'ch': path})
    rng.shuffle(hist)
    case = {'spec': spec, 'ops': hist, 'short_seed': rng.getrandbits(32) if rng.random() < 0.2 else None, 'threads': None}
    scaled = [p for p, ch in w.chans.items() if ch.count and scalemodel.channel_scales(w, p) not in (None, 'unsupported')]
    if scaled and rng.random() < 0.25:
        # the eagerly read file is documented as safe to read from concurrently: 2-3 threads read scaled windows of one
        # channel, interleaved at line granularity inside nptdms by a seeded scheduler
        path = rng.choice(scaled)
        n = w.chans[path].count
        tops = []
        for _ in range(rng.randint(2, 3)):
            off = rng.randint(0, max(0, n - 1))
            tops.append({'op': 'read_data', 'ch': path, 'offset': off, 'length': rng.choice([None, rng.randint(1, n)])})
        case['threads'] = {'seed': rng.getrandbits(32), 'switch_p': rng.choice([0.05, 0.2, 0.5]), 'ops': tops}
    return case


def expected_scaled(w, path):
    """(list of Fractions | None when unscaled, scale descriptors)"""
    ch = w.chans[path]
    scales = scalemodel.channel_scales(w, path)
    if scales is None:
        return None, None
    if scales == 'unsupported':
        return 'skip', None
    try:
        if ch.type == 'daqmx':
            scalers = {sid: scalemodel.raw_fractions(ch, sid) for sid in ch.scalers}
            return scalemodel.evaluate(scales, None, scalers, with_magnitudes=True), scales
        if ch.type not in scalemodel.SCALABLE:
            return 'skip', scales
        return scalemodel.evaluate(scales, scalemodel.raw_fractions(ch), with_magnitudes=True), scales
    except (KeyError, IndexError, ValueError, OverflowError):
        return 'skip', scales


def close_enough(arr, exp, f32):
    exp, mags = exp
    if len(arr) != len(exp):
        return 'length %d, expected %d' % (len(arr), len(exp))
    rel = 2e-5 if f32 else 1e-10
    for i, (a, e) in enumerate(zip(arr, exp)):
        a = float(a)
        e = float(e)
        # relative to the largest intermediate magnitude: cancellation between huge intermediates is legitimate
        # floating-point behaviour, a wrong formula or wiring is off by far more
        if math.isnan(a) or abs(a - e) > rel * max(1.0, abs(e), float(mags[i])) + (1e-4 if f32 else 1e-9):
            return 'value %d is %r, reference evaluator gives %r' % (i, a, e)
    return None


def execute(case):
    res = Result()
    spec = case['spec']
    w = build(spec)
    exp = {}
    graph_sig = []
    for path, ch in w.chans.items():
        e, scales = expected_scaled(w, path)
        exp[path] = e
        if scales:
            graph_sig.append([(s['type'], s.get('src'), s.get('left'), s.get('right')) for s in scales])
            for s in scales:
                if s['type'] not in ('daqmx',):
                    res.probe('scale:' + s['type'])
            if sum(1 for s in scales if s.get('src') == scalemodel.RAW) + sum(
                    (s.get('left') == scalemodel.RAW) + (s.get('right') == scalemodel.RAW) for s in scales) > 1:
                res.probe('several-scales-read-raw')
            if ch.type == 'daqmx' and any(s['type'] != 'daqmx' for s in scales):
                res.probe('daqmx-scaled')
            g = w.names[path][0]
            own = scalemodel.parse_scales(w.props.get(path, {})) if w.props.get(path) else None
            if own is not None:
                res.probe('placement:channel')
                if 'NI_Number_Of_Scales' not in w.props[path]:
                    res.probe('no-number-of-scales')
            else:
                if w.props.get(path, {}).get('NI_Scaling_Status', (None, None))[1] == 'scaled':
                    res.probe('status-scaled-shadowing')
                gp = w.props.get(fmt.quote_path(g), {})
                res.probe('placement:group' if (gp and scalemodel.parse_scales(gp) is not None) else 'placement:root')
    res.sig = [shape_sig(spec) if not any(s.get('layout') == 'daqmx' for s in spec['segments']) else 'daqmx', graph_sig]
    with store(short_seed=case['short_seed'], record=False) as st:
        st.put('w.tdms', w.data)
        try:
            eager = lib.TdmsFile.read(st.source('simstream', 'w.tdms'))
            lazy = lib.TdmsFile.open(st.source('simstream', 'w.tdms'))
        except Exception as exc:
            res.skipped_ops += 1
            res.ev('open-raises', type(exc).__name__)
            return res
        keeper = ops.Keeper()
        try:
            raw0 = {}
            full = {}
            for path, ch in w.chans.items():
                ce = ops.chan(eager, w, path)
                cl = ops.chan(lazy, w, path)
                # raw snapshot before any scaled read
                r0, exc, eo = ops.try_op(lambda: ops.norm(ce.read_data(scaled=False)))
                raw0[path] = r0
                l0, _e2, _o2 = ops.try_op(lambda: ops.norm(cl.read_data(scaled=False)))
                # scaled full reads
                se, exc_e, eo_e = ops.try_op(lambda: ce[:])
                sl, exc_l, eo_l = ops.try_op(lambda: cl[:])
                e = exp[path]
                if exc_e or exc_l:
                    if e is not None and e != 'skip':
                        res.violations.append(V('C13.raises', '%s scaled read of %s: %s' % (
                            'eager' if exc_e else 'lazy', path, eo_e if exc_e else eo_l), exc=exc_e or exc_l))
                    else:
                        res.skipped_ops += 1
                    continue
                ne, nl = ops.norm(se), ops.norm(sl)
                keeper.keep('eager %s[:]' % path, se, ne)
                keeper.keep('lazy %s[:]' % path, sl, nl)
                full[path] = ne
                res.compared += 1
                if e is None:
                    # unscaled: scaled read == raw read
                    if r0 is not None and ne != r0 and ch.type not in ('ts',) and not (
                            _lazy.full_len(ne) == 0 and r0[0] in ('arr', 'strs', 'rawts') and _lazy.full_len(r0) == 0):
                        res.violations.append(V('C13.unscaled-differs', '%s has no scaling in scope but [:] %s != raw %s' % (
                            path, _lazy._short(ne), _lazy._short(r0))))
                elif e != 'skip':
                    if ch.count:
                        res.nontrivial = True
                    m = close_enough(np.asarray(se, dtype='f8'), e, ch.type == 'f32')
                    if m:
                        res.violations.append(V('C13.formula', '%s: %s (scales %s)' % (path, m, graph_sig[:1])))
                if ne != nl and not (_lazy.full_len(ne) == 0 and _lazy.full_len(nl) == 0):
                    res.violations.append(V('C13.lazy-eager', '%s: lazy %s eager %s' % (path, _lazy._short(nl), _lazy._short(ne))))
                if l0 is not None and r0 is not None and l0 != r0 and not (
                        r0[0] != 'dict' and _lazy.full_len(l0) == 0 and _lazy.full_len(r0) == 0):
                    res.violations.append(V('C13.raw-lazy-eager', '%s: unscaled lazy %s eager %s' % (path, _lazy._short(l0), _lazy._short(r0))))
            # op history: elementwise / cache behaviour on both handles
            for i, op in enumerate(case['ops']):
                fl = full.get(op['ch'])
                if fl is None or fl[0] == 'dict':
                    res.skipped_ops += 1
                    continue
                res.steps += 1
                if op['op'] == 'chunks':
                    def stream():
                        parts = []
                        for k_, ck in enumerate(ops.chan(lazy, w, op['ch']).data_chunks()):
                            d_ = ck[:]
                            parts.append(ops.norm(d_))
                            keeper.keep('lazy %s data_chunks()[%d][:]' % (op['ch'], k_), d_, parts[-1])
                        return ops.concat_norm(parts)
                    g, exc, eo = ops.try_op(stream)
                    if exc:
                        res.violations.append(V('C13.raises', 'chunk stream of %s: %s' % (op['ch'], eo), exc=exc))
                    elif g is not None and g != fl and _lazy.full_len(fl):
                        res.violations.append(V('C13.window', 'concatenated scaled chunks of %s differ from the scaled full read' % op['ch'],
                                                op='chunks'))
                    continue
                for mode, tf in (('lazy', lazy), ('eager', eager)):
                    v, g_, exc = _lazy.check_op(tf, w, op, fl, 'C13.window', mode, res=res, keeper=keeper,
                                                scribble=(mode == 'lazy' and i % 3 == 0))
                    if v is not None:
                        res.violations.append(v)
                if len(res.violations) > 3:
                    break
            # concurrent readers of the eagerly read file, one deterministic interleaving
            if case.get('threads') and not res.violations:
                res.violations += _lazy.concurrent_reads(case['threads'], eager, w, res, 'C13.concurrent')
            # results already handed out must not change when later reads happen
            for (label, before, after) in keeper.mutated()[:3]:
                res.violations.append(V('C13.result-aliased', 'the array returned by %s changed after later reads: was %s, now %s' % (
                    label, _lazy._short(before), _lazy._short(after))))
            res.probe('held-results-rechecked', len(keeper.items))
            # purity: raw data identical after all of the above
            for path, ch in w.chans.items():
                ce = ops.chan(eager, w, path)
                r1, exc, eo = ops.try_op(lambda: ops.norm(ce.read_data(scaled=False)))
                if raw0.get(path) is not None and r1 is not None and r1 != raw0[path]:
                    res.violations.append(V('C13.impure', 'raw data of %s changed after scaled reads: before %s after %s' % (
                        path, _lazy._short(raw0[path]), _lazy._short(r1)), mode='eager'))
                if ch.type != 'daqmx' and ch.type is not None:
                    r2, exc, eo = ops.try_op(lambda: ops.norm(ce.raw_data))
                    mexp = _lazy.model_full(ch, False)
                    if r2 is not None and not ops.agree(r2, mexp):
                        res.violations.append(V('C13.impure', 'raw_data of %s no longer equals the file content after scaled reads' % path,
                                                mode='eager'))
                    cl = ops.chan(lazy, w, path)
                    r3, exc, eo = ops.try_op(lambda: ops.norm(cl.read_data(scaled=False)))
                    if r3 is not None and not ops.agree(r3, mexp):
                        res.violations.append(V('C13.impure', 'lazy unscaled read of %s differs from the file content after scaled reads' % path,
                                                mode='lazy'))
        finally:
            lazy.close()
    res.ev('violations', [v.as_dict() for v in res.violations])
    return res


def shrink_candidates(case):
    from ..shrink import spec_candidates, list_candidates
    if case.get('threads'):
        c = dict(case)
        c['threads'] = None
        yield c
        c = dict(case)
        c['ops'] = []
        yield c
    for o in list_candidates(case['ops']):
        c = dict(case)
        c['ops'] = o
        yield c
    if case['short_seed'] is not None:
        c = dict(case)
        c['short_seed'] = None
        yield c
    for sp in spec_candidates(case['spec']):
        c = dict(case)
        c['spec'] = sp
        c['ops'] = [o for o in case['ops'] if o['ch'] in sp['names']]
        yield c


def sample(case):
    w = build(case['spec'])
    graphs = {}
    for path in w.chans:
        s = scalemodel.channel_scales(w, path)
        if s == 'unsupported':
            graphs[path] = 'sensor scale (no reference formula; purity / elementwise / lazy == eager only)'
        elif s:
            graphs[path] = [(x['type'], x.get('src'), x.get('left'), x.get('right')) for x in s]
    return {'scale_graphs': graphs, 'n_ops': len(case['ops']), 'ops': case['ops'][:5]}
