"""Shared by C04 / C19 / C05 / C14: request generation for windows, slices and indices, the
reference 'full array' per channel and the comparison of one op against it."""
import numpy as np

from .. import ops, fmt
from ..compare import V


def boundaries(ch):
    """Value indices at which chunks / segments of this channel begin or end."""
    b = {0, ch.count}
    for (_k, _c, first, n, _e, _ce) in ch.prov:
        b.add(first)
        b.add(first + n)
    return sorted(b)


def gen_requests(rng, w, tier, exhaustive_len=24, per_channel=None, slice_exhaustive_len=5):
    """Explicit op list over all channels of world w."""
    reqs = []
    quick = tier == 'quick'
    for path, ch in w.chans.items():
        n = ch.count
        if ch.type is None:
            reqs.append({'op': 'read_data', 'ch': path, 'offset': 0, 'length': None})
            reqs.append({'op': 'slice', 'ch': path, 'start': None, 'stop': None, 'step': None})
            continue
        bs = boundaries(ch)
        near = sorted({x + d for x in bs for d in (-1, 0, 1) if 0 <= x + d <= n + 2} | {n + 1, n + 2})
        wins = []
        if not quick and n <= exhaustive_len:
            for off in range(0, n + 3):
                wins.append((off, None))
                for ln in range(0, n + 3):
                    wins.append((off, ln))
        else:
            cand = []
            for off in near:
                cand.append((off, None))
                for end in near:
                    if end >= off:
                        cand.append((off, end - off))
            budget = per_channel or (40 if quick else 300)
            if len(cand) > budget:
                cand = rng.sample(cand, budget)
            wins = cand
            for _ in range(6):
                off = rng.randint(0, n + 2)
                wins.append((off, rng.choice([None, 0, 1, rng.randint(0, n + 2)])))
        for off, ln in wins:
            reqs.append({'op': 'read_data', 'ch': path, 'offset': off, 'length': ln})
            if rng.random() < 0.1:
                reqs[-1]['np'] = rng.choice(['int64', 'int32', 'intp'])
        # slices
        rngv = list(range(-n - 2, n + 3)) + [None]
        steps = [None, 1, -1, 2, -2, 3, -3, 0]
        if not quick and n <= slice_exhaustive_len:
            for a in rngv:
                for b in rngv:
                    for s in steps:
                        reqs.append({'op': 'slice', 'ch': path, 'start': a, 'stop': b, 'step': s})
        else:
            for _ in range(30 if quick else 150):
                reqs.append({'op': 'slice', 'ch': path, 'start': rng.choice(rngv), 'stop': rng.choice(rngv),
                             'step': rng.choice(steps)})
                if rng.random() < 0.1:
                    reqs[-1]['np'] = rng.choice(['int64', 'int32', 'intp'])
        # integers
        ints = list(range(-n - 2, n + 2))
        if len(ints) > (16 if quick else 60):
            ints = rng.sample(ints, 16 if quick else 60) + [0, -1, n - 1, n, -n, -n - 1]
        for i in ints:
            r = {'op': 'index', 'ch': path, 'i': i}
            if rng.random() < 0.12:
                r['np'] = rng.choice(['int64', 'int32', 'intp'])
            reqs.append(r)
    rng.shuffle(reqs)
    return reqs


def take_norm(full, idxs):
    """full[idxs] on a normalised full array."""
    idxs = ops.as_indices(idxs)
    k = full[0]
    if k == 'strs':
        return ('strs', [full[1][i] for i in idxs])
    if k == 'rawts':
        return ('rawts', len(idxs), ops.gather(full[2], idxs, 32))
    if k == 'ts-us':
        return ('ts-us', [full[1][i] for i in idxs])
    if k == 'arr':
        n = full[2]
        width = (len(full[3]) // n) if n else 0
        return ('arr', full[1], len(idxs), ops.gather(full[3], idxs, width))
    if k == 'dict':
        return ('dict', [(sid, take_norm(v, idxs)) for sid, v in full[1]])
    raise ValueError(k)


def scalar_of(full, i):
    k = full[0]
    if k == 'strs':
        return ('str', full[1][i])
    if k == 'rawts':
        b = bytes.fromhex(full[2][i * 32:(i + 1) * 32])
        import struct
        frac, sec = struct.unpack('<Qq', b)
        return ('rawts1', sec, frac)
    if k == 'ts-us':
        return ('ts-us', [full[1][i]])
    if k == 'arr':
        n = full[2]
        width = len(full[3]) // n
        return ('scalar', full[1], full[3][i * width:(i + 1) * width])
    raise ValueError(k)


def full_len(full):
    k = full[0]
    if k == 'strs':
        return len(full[1])
    if k == 'rawts':
        return full[1]
    if k == 'ts-us':
        return len(full[1])
    if k == 'arr':
        return full[2]
    if k == 'dict':
        return full_len(full[1][0][1]) if full[1] else 0
    raise ValueError(k)


def model_full(ch, raw_ts, scaled_model=None):
    if scaled_model is not None and ch.path in scaled_model:
        return scaled_model[ch.path]
    if ch.type == 'daqmx':
        return ('dict', [(sid, ops.model_norm(ch, range(ch.count), raw_ts, scaler=sid)) for sid in sorted(ch.scalers)])
    return ops.model_norm(ch, range(ch.count), raw_ts)


def daqmx_output_scaler(w, path):
    """Scaler id whose raw values are the scaled data of a DAQmx channel whose only scaling is
    NI_Number_Of_Scales (no NI_Scale[i]_Scale_Type entries); None when the channel is scaled otherwise / not at all."""
    props = w.props.get(path, {})
    if 'NI_Number_Of_Scales' not in props or any(k.endswith('_Scale_Type') for k in props):
        return None
    g = w.names[path][0]
    from .. import fmt as _fmt
    sid = props['NI_Number_Of_Scales'][1] - 1
    return sid if sid in w.chans[path].scalers else None


def op_full(w, ch, op, raw_ts):
    """The normalised full array an op on channel ch is to be compared with (None = not judged)."""
    if ch.type != 'daqmx':
        return model_full(ch, raw_ts)
    if op.get('op') == 'read_data' and op.get('scaled', True) is False:
        return model_full(ch, raw_ts)
    sid = daqmx_output_scaler(w, ch.path)
    if sid is None:
        return None
    return ops.model_norm(ch, range(ch.count), raw_ts, scaler=sid)


def scribble_on(arr):
    """What a caller may do with an array it was handed: work on it in place.  The array is overwritten with zeros
    (text: a marker); nothing the library returns later may show it."""
    if not isinstance(arr, np.ndarray) or arr.size == 0 or not arr.flags.writeable:
        return False
    try:
        if arr.dtype.kind == 'O':
            arr[...] = 'scribbled by the caller'
        elif arr.dtype.fields is not None:
            return False
        else:
            arr[...] = np.zeros((), dtype=arr.dtype)
    except (ValueError, TypeError):
        return False
    return True


def check_op(tf, w, op, full, tagp, mode, res=None, keeper=None, scribble=False):
    """Run op on handle tf and compare with numpy indexing on `full` (normalised full array).
    Returns (violation or None, normalised library result or None, exception class name or None).
    scribble: after the comparison the caller overwrites the array it got (lazy handles only: every lazy read returns
    data the caller owns; an eagerly read channel hands out its own array by design)."""
    n = full_len(full)
    exp = ops.expected_indices(n, op)
    got, exc, excobj = ops.try_op(lambda: ops.do_op(tf, w, op))
    if exp is None:
        return None, None, exc
    label = {k: v for k, v in op.items() if k != 'ch'}
    if exp[0] == 'exc':
        if exc != exp[1]:
            return V(tagp + '.expected-exception', '%s %s on %s: expected %s, got %s' % (
                mode, label, op['ch'], exp[1], exc or ops.norm(got)[:3]), op=op['op'], mode=mode), None, exc
        return None, None, exc
    if exc is not None:
        return V(tagp + '.raises', '%s %s on %s (len %d): %s: %s' % (mode, label, op['ch'], n, exc, excobj),
                 op=op['op'], mode=mode, exc=exc), None, exc
    g = ops.norm(got)
    if scribble and scribble_on(got):
        if res is not None:
            res.probe('caller-scribbled-on-result')
    elif keeper is not None:
        keeper.keep('%s %s on %s' % (mode, label, op['ch']), got, g)
    if exp[0] == 'idx1':
        e = scalar_of(full, exp[1])
    else:
        e = take_norm(full, exp[1])
    if not ops.agree(g, e):
        return V(tagp + '.value', '%s %s on %s (len %d): got %s expected %s' % (
            mode, label, op['ch'], n, _short(g), _short(e)), op=op['op'], mode=mode), g, None
    return None, g, None


def _short(x):
    s = repr(x)
    return s if len(s) < 260 else s[:260] + '...'


def concurrent_reads(th, eager, w, res, tag):
    import os
    from .. import lib
    from ..threads import Interleaver, InterleaveError
    out = []
    alone = []
    for op in th['ops']:
        g, exc, eo = ops.try_op(lambda: ops.norm(ops.do_op(eager, w, op)))
        alone.append((g, exc))
    il = Interleaver(th['seed'], switch_p=th['switch_p'], trace_prefix=os.path.dirname(lib.nptdms.__file__))
    try:
        got = il.run([(lambda op=op: ops.norm(ops.do_op(eager, w, op))) for op in th['ops']])
    except InterleaveError as exc:
        # a thread parked while it holds a real lock blocks the others: an artefact of forced pre-emption, not a verdict
        res.probe('interleaver-gave-up')
        res.skipped_ops += 1
        return []
    res.probe('concurrent-readers')
    if il.switches:
        res.probe('concurrent-readers:switched')
    res.steps += il.points
    res.ev('threads', il.trace[:50], il.points)
    for op, (g0, e0), r in zip(th['ops'], alone, got):
        label = {k: v for k, v in op.items() if k != 'ch'}
        if r[0] == 'exc':
            if e0 is None:
                out.append(V(tag, '%s on %s raised %s: %s when run concurrently (%d switches), alone it returns %s' % (
                    label, op['ch'], type(r[1]).__name__, r[1], il.switches, _short(g0)), exc=type(r[1]).__name__))
        elif e0 is None and r[1] != g0:
            out.append(V(tag, '%s on %s returns %s when other threads read the same channel at the same time '
                         '(%d switches), alone it returns %s' % (label, op['ch'], _short(r[1]), il.switches, _short(g0))))
    return out
