"""Loading the code under test from VERIF_REPO (default /repo) and owning its storage seams."""
import contextlib
import logging
import os
import sys

REPO = os.environ.get('VERIF_REPO', '/repo')
if sys.path[0] != REPO:
    sys.path.insert(0, REPO)
sys.dont_write_bytecode = True

import numpy as np  # noqa: E402
import nptdms  # noqa: E402
import nptdms.reader  # noqa: E402
import nptdms.writer  # noqa: E402
import nptdms.tdms  # noqa: E402
from nptdms.log import log_manager  # noqa: E402

if not os.path.realpath(nptdms.__file__).startswith(os.path.realpath(REPO) + os.sep):
    raise RuntimeError('nptdms imported from %s, expected under %s' % (nptdms.__file__, REPO))

from .simfs import OsShim  # noqa: E402

TdmsFile = nptdms.TdmsFile
TdmsWriter = nptdms.TdmsWriter

# library log output is never wanted on the console; the level knob still changes branches
log_manager.console_handler.setLevel(logging.CRITICAL + 1)
_null = logging.NullHandler()


def set_log_level(level):
    for lg in log_manager.loggers.values():
        lg.setLevel(level)


set_log_level(logging.ERROR)

import warnings  # noqa: E402
warnings.simplefilter('ignore')      # numpy RuntimeWarnings of sensor scalings on arbitrary data
np.seterr(all='ignore')


@contextlib.contextmanager
def installed(fs):
    """nptdms.reader / nptdms.writer open files through `fs` and discover index files in it."""
    real_os = nptdms.reader.os
    nptdms.reader.open = fs.open
    nptdms.writer.open = fs.open
    nptdms.reader.os = OsShim(fs)
    try:
        yield fs
    finally:
        del nptdms.reader.open
        del nptdms.writer.open
        nptdms.reader.os = real_os


class _Sink(object):
    def write(self, s):
        return len(s)

    def flush(self):
        pass




@contextlib.contextmanager
def knobs(dedup_chunk=None, debug_log=False):
    """Tuning constants randomised per world (swarm knobs)."""
    f = getattr(nptdms.reader, '_array_equal', None)
    # the seam exists only while the function keeps its one defaulted `chunk_size` parameter; otherwise the knob is a no-op
    usable = (f is not None and f.__defaults__ is not None and len(f.__defaults__) == 1 and
              f.__code__.co_varnames[:f.__code__.co_argcount][-1:] == ('chunk_size',))
    prev_defaults = f.__defaults__ if usable else None
    if dedup_chunk is not None and usable:
        f.__defaults__ = (dedup_chunk,)
    old_stream = None
    if debug_log:
        # DEBUG takes extra branches (lead-in, raw data index, DAQmx metadata repr); the records are formatted
        # for real but written to a sink, never to the console
        set_log_level(logging.DEBUG)
        old_stream = log_manager.console_handler.setStream(_Sink())
        log_manager.console_handler.setLevel(logging.DEBUG)
    try:
        yield
    finally:
        if usable:
            f.__defaults__ = prev_defaults
        if debug_log:
            set_log_level(logging.ERROR)
            log_manager.console_handler.setLevel(logging.CRITICAL + 1)
            if old_stream is not None:
                log_manager.console_handler.setStream(old_stream)
