"""Loading the code under test from VERIF_REPO (default /repo) and owning its storage seams."""
import contextlib
import logging
import os
import sys

REPO = os.environ.get('VERIF_REPO', '/repo')
if sys.path[0] != REPO:
    sys.path.insert(0, REPO)
sys.dont_write_bytecode = True

import numpy as np  # noqa: E402
import time as _time_module  # noqa: E402

# ---- the clock seam.  Installed before nptdms is imported, so that `from time import perf_counter` inside the code under
# test binds the seam as well: every clock function delegates to the real one unless a simulated clock is active.
_REAL_CLOCKS = {n: getattr(_time_module, n) for n in ('time', 'monotonic', 'perf_counter', 'time_ns', 'monotonic_ns',
                                                      'perf_counter_ns')}
ACTIVE_CLOCK = [None]


def _clock_seam(name):
    real = _REAL_CLOCKS[name]

    def read():
        c = ACTIVE_CLOCK[0]
        return real() if c is None else c.read(name)
    read.__name__ = name
    return read


if not getattr(_time_module, '_verif_clock_seam', False):
    for _n in _REAL_CLOCKS:
        setattr(_time_module, _n, _clock_seam(_n))
    _time_module._verif_clock_seam = True


def real_time():
    """Wall clock of the machine (budgets, timeouts of the harness itself)."""
    return _REAL_CLOCKS['time']()


SIM_SECONDS = [0.0]       # simulated seconds let pass so far in this process (evidence)


class SimClock(object):
    """Simulated time: it stands still except for a microsecond per reading (so that two readings differ) and for what the
    simulated caller lets pass (`advance`: think time between two requests, a slow disk) or what is done to the wall clock
    (`step_wall`: NTP correction, a suspended laptop).  Every clock the code under test can read goes through here."""
    def __init__(self):
        self.mono = 5000.0
        self.wall = 1700000000.0
        self.readings = 0

    def read(self, name):
        self.readings += 1
        self.mono += 1e-6
        v = (self.wall + self.mono) if name.startswith('time') else self.mono
        return int(v * 1e9) if name.endswith('_ns') else v

    def advance(self, seconds):
        self.mono += seconds
        SIM_SECONDS[0] += seconds

    def step_wall(self, seconds):
        self.wall += seconds


import nptdms  # noqa: E402
try:
    import nptdms.reader as _reader_module  # noqa: E402   (only for the optional _array_equal knob)
except ImportError:
    _reader_module = None
from nptdms.log import log_manager  # noqa: E402

if not os.path.realpath(nptdms.__file__).startswith(os.path.realpath(REPO) + os.sep):
    raise RuntimeError('nptdms imported from %s, expected under %s' % (nptdms.__file__, REPO))


TdmsFile = nptdms.TdmsFile
TdmsWriter = nptdms.TdmsWriter

# library log output is never wanted on the console; the level knob still changes branches
log_manager.console_handler.setLevel(logging.CRITICAL + 1)
_null = logging.NullHandler()


def set_log_level(level):
    for lg in log_manager.loggers.values():
        lg.setLevel(level)


set_log_level(logging.ERROR)

import warnings  # noqa: E402
warnings.simplefilter('ignore')      # numpy RuntimeWarnings of sensor scalings on arbitrary data
if os.environ.get('VERIF_OPTIMIZE') == '1':
    # the secondary pass also runs with "warnings as errors" for deprecated APIs used from inside nptdms (what a project
    # with filterwarnings = error, or the next Python release, makes of them); the one deprecation the pinned tree already
    # triggers with the installed numpy is exempt
    warnings.filterwarnings('error', category=DeprecationWarning, module=r'nptdms(\..*)?$')
    warnings.filterwarnings('ignore', message='Setting the dtype on a NumPy array has been deprecated', category=DeprecationWarning)
if sys.flags.bytes_warning >= 2:
    # `python -bb` (part of the secondary pass): comparing bytes with str is an error wherever it happens
    warnings.filterwarnings('error', category=BytesWarning)
np.seterr(all='ignore')


@contextlib.contextmanager
def installed(fs):
    """While active, every way the code under test may reach a file by name - open / io.open (so pathlib too),
    os.path.isfile / exists / getsize / realpath / islink, os.stat - is answered by `fs` for simulated names (relative names and names under
    simfs.SIM_ROOT) and by the real file system for everything else.  The seam is process-wide on purpose: it does not
    depend on which nptdms module opens files or how."""
    import builtins
    import io
    from . import simfs
    saved = (builtins.open, io.open, os.path.isfile, os.path.exists, os.path.getsize, os.stat, os.path.getmtime,
             os.fsync, os.fstat, os.path.realpath, os.path.islink)

    def p_realpath(p, *a, **kw):
        return fs.realpath(p) if simfs.sim_name(p) is not None else saved[9](p, *a, **kw)

    def p_islink(p):
        return simfs.sim_name(p) in fs.links if simfs.sim_name(p) is not None else saved[10](p)

    def p_isfile(p):
        return fs.isfile(p) if simfs.sim_name(p) is not None else saved[2](p)

    def p_exists(p):
        return fs.isfile(p) if simfs.sim_name(p) is not None else saved[3](p)

    def p_getsize(p):
        return fs.getsize(p) if simfs.sim_name(p) is not None else saved[4](p)

    def p_getmtime(p):
        return fs.getmtime(p) if simfs.sim_name(p) is not None else saved[6](p)

    def p_fsync(fd):
        if hasattr(fd, 'fileno'):
            fd = fd.fileno()
        return fs.fsync(fd) if fs.by_fd(fd) is not None else saved[7](fd)

    def p_fstat(fd):
        return fs.fstat(fd) if fs.by_fd(fd) is not None else saved[8](fd)

    def p_stat(p, *a, **kw):
        return fs.stat(p) if simfs.sim_name(p) is not None else saved[5](p, *a, **kw)
    prev_clock = ACTIVE_CLOCK[0]
    ACTIVE_CLOCK[0] = fs.clock
    builtins.open = fs.open
    io.open = fs.open
    os.path.isfile, os.path.exists, os.path.getsize, os.stat = p_isfile, p_exists, p_getsize, p_stat
    os.path.getmtime = p_getmtime
    os.fsync, os.fstat = p_fsync, p_fstat
    os.path.realpath, os.path.islink = p_realpath, p_islink
    try:
        yield fs
    finally:
        ACTIVE_CLOCK[0] = prev_clock
        builtins.open, io.open = saved[0], saved[1]
        os.path.isfile, os.path.exists, os.path.getsize, os.stat = saved[2:6]
        os.path.getmtime = saved[6]
        os.fsync, os.fstat = saved[7], saved[8]
        os.path.realpath, os.path.islink = saved[9], saved[10]


class _Sink(object):
    def write(self, s):
        return len(s)

    def flush(self):
        pass




LOW_MEMORY_HEADROOM = 512 * 2**20


def _vm_size():
    with open('/proc/self/statm') as f:
        return int(f.read().split()[0]) * os.sysconf('SC_PAGE_SIZE')


@contextlib.contextmanager
def low_memory(headroom=LOW_MEMORY_HEADROOM):
    """The simulated machine has little memory left: while active the process may grow by `headroom` bytes of address space
    and no more (RLIMIT_AS), so an allocation sized by what a file *states* rather than by what it holds fails with
    MemoryError the way it does under a job scheduler's limit, in a small container or without overcommit.  The worlds
    it is applied to hold less than 1 MiB of content; 512 MiB is ample for reading them."""
    import resource
    soft, hard = resource.getrlimit(resource.RLIMIT_AS)
    limit = _vm_size() + headroom
    if hard != resource.RLIM_INFINITY:
        limit = min(limit, hard)
    resource.setrlimit(resource.RLIMIT_AS, (limit, hard))
    try:
        yield
    finally:
        resource.setrlimit(resource.RLIMIT_AS, (soft, hard))


@contextlib.contextmanager
def knobs(dedup_chunk=None, debug_log=False):
    """Tuning constants randomised per world (swarm knobs)."""
    f = getattr(_reader_module, '_array_equal', None) if _reader_module is not None else None
    # the seam exists only while the function keeps its one defaulted `chunk_size` parameter; otherwise the knob is a no-op
    usable = (f is not None and f.__defaults__ is not None and len(f.__defaults__) == 1 and
              f.__code__.co_varnames[:f.__code__.co_argcount][-1:] == ('chunk_size',))
    prev_defaults = f.__defaults__ if usable else None
    if dedup_chunk is not None and usable:
        f.__defaults__ = (dedup_chunk,)
    old_stream = None
    if debug_log:
        # DEBUG takes extra branches (lead-in, raw data index, DAQmx metadata repr); the records are formatted
        # for real but written to a sink, never to the console
        set_log_level(logging.DEBUG)
        old_stream = log_manager.console_handler.setStream(_Sink())
        log_manager.console_handler.setLevel(logging.DEBUG)
    try:
        yield
    finally:
        if usable:
            f.__defaults__ = prev_defaults
        if debug_log:
            set_log_level(logging.ERROR)
            log_manager.console_handler.setLevel(logging.CRITICAL + 1)
            if old_stream is not None:
                log_manager.console_handler.setStream(old_stream)
