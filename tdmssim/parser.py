"""Independent strict structural parser for TDMS segments (C08's oracle; shares nothing with nptdms).

`parse_segment(buf, pos, state=...)` parses exactly one segment and raises Structural when any length field
does not equal the bytes that follow it, the metadata does not end at the raw-data offset, or the
raw data length is not what the types and counts in force imply.  "In force" follows the TDMS layout, not
the habits of today's TdmsWriter: an object may restate its raw data index, refer to its previous one
("same as before"), carry over from the previous segment's object list (no kTocNewObjList), and the raw data
may hold any whole number of chunks.  `state` carries the object list and last indexes from segment to
segment (`seg['state']` is the state after the segment)."""
import struct

from . import fmt

CODE_TO_TYPE = {v[0]: k for k, v in fmt.TYPES.items()}


class Structural(Exception):
    def __init__(self, what, **sig):
        Exception.__init__(self, what)
        self.what = what
        self.sig = sig


class Cursor(object):
    def __init__(self, buf, pos, end):
        self.buf = buf
        self.pos = pos
        self.end = end

    def take(self, n, what):
        if self.pos + n > self.end:
            raise Structural('%s runs past the end of its enclosing block (need %d bytes at %d, block ends at %d)' % (
                what, n, self.pos, self.end), field=what)
        b = self.buf[self.pos:self.pos + n]
        self.pos += n
        return b

    def u32(self, e, what):
        return struct.unpack(e + 'L', self.take(4, what))[0]

    def u64(self, e, what):
        return struct.unpack(e + 'Q', self.take(8, what))[0]

    def string(self, e, what):
        n = self.u32(e, what + ' length')
        b = self.take(n, what)
        try:
            return bytes(b).decode('utf-8')
        except UnicodeDecodeError:
            raise Structural('%s is not valid UTF-8' % what, field=what)


def parse_path(path):
    """Independent reading of the object-path grammar: /'g'/'c' with '' as an escaped quote."""
    if path == '/':
        return []
    comps = []
    i = 0
    n = len(path)
    while i < n:
        if path[i] != '/' or i + 1 >= n or path[i + 1] != "'":
            raise Structural('malformed object path %r' % path, field='path')
        i += 2
        cur = []
        while True:
            if i >= n:
                raise Structural('unterminated component in path %r' % path, field='path')
            if path[i] == "'":
                if i + 1 < n and path[i + 1] == "'":
                    cur.append("'")
                    i += 2
                    continue
                i += 1
                break
            cur.append(path[i])
            i += 1
        comps.append(''.join(cur))
    if len(comps) > 2:
        raise Structural('path with more than two components %r' % path, field='path')
    return comps


def read_prop_value(cur, t, e):
    if t in fmt.PROP_STRUCT:
        size = fmt.size_of(t)
        b = cur.take(size, 'property value')
        if t in ('f32', 'f64', 'f32u', 'f64u'):
            return fmt.from_endian(t, bytes(b), e)
        return struct.unpack(e + fmt.PROP_STRUCT[t], b)[0]
    if t == 'str':
        return cur.string(e, 'property string')
    if t == 'bool':
        return cur.take(1, 'property bool')[0] != 0
    if t == 'ts':
        b = cur.take(16, 'property timestamp')
        if e == '<':
            frac, sec = struct.unpack('<Qq', b)
        else:
            sec, frac = struct.unpack('>qQ', b)
        return [sec, frac]
    raise Structural('property of unsupported type %s' % t, field='property type')


def parse_segment(buf, pos, tag=b'TDSm', index=False, state=None):
    """Returns a dict describing the segment that starts at pos."""
    if len(buf) - pos < fmt.LEAD_IN:
        raise Structural('truncated lead-in at %d' % pos, field='lead-in')
    if bytes(buf[pos:pos + 4]) != tag:
        raise Structural('segment at %d starts with %r, expected %r' % (pos, bytes(buf[pos:pos + 4]), tag), field='tag')
    toc = struct.unpack('<l', buf[pos + 4:pos + 8])[0]
    e = '>' if toc & fmt.TOC_BIGENDIAN else '<'
    version, next_off, raw_off = struct.unpack(e + 'lQQ', buf[pos + 8:pos + 28])
    if version not in (4712, 4713):
        raise Structural('version %d' % version, field='version')
    if raw_off > next_off:
        raise Structural('raw data offset %d beyond next segment offset %d' % (raw_off, next_off), field='offsets')
    meta_start = pos + fmt.LEAD_IN
    data_pos = meta_start + raw_off
    end = meta_start + next_off
    seg = {'pos': pos, 'toc': toc, 'endian': e, 'version': version, 'next_off': next_off, 'raw_off': raw_off,
           'data_pos': data_pos, 'end': end, 'objects': []}
    if not index and end > len(buf):
        raise Structural('next segment offset points past the end of the file (%d > %d)' % (end, len(buf)), field='next_off')
    if index and data_pos > len(buf):
        raise Structural('index file shorter than the metadata it announces', field='raw_off')
    cur = Cursor(buf, meta_start, data_pos)
    if toc & fmt.TOC_META:
        nobj = cur.u32(e, 'object count')
        for _ in range(nobj):
            path = cur.string(e, 'object path')
            comps = parse_path(path)
            hdr = cur.u32(e, 'raw data index header')
            obj = {'path': path, 'comps': comps, 'index': None, 'props': []}
            if hdr == 0xFFFFFFFF:
                obj['index'] = 'none'
            elif hdr == 0:
                obj['index'] = 'same'
            elif hdr in (fmt.FORMAT_CHANGING, fmt.DIGITAL_LINE):
                raise Structural('DAQmx index not expected from TdmsWriter', field='index header')
            else:
                start = cur.pos - 4
                code = cur.u32(e, 'data type')
                dim = cur.u32(e, 'dimension')
                count = cur.u64(e, 'value count')
                t = CODE_TO_TYPE.get(code)
                if t is None:
                    raise Structural('unknown data type code 0x%x for %s' % (code, path), field='data type')
                if dim != 1:
                    raise Structural('dimension %d' % dim, field='dimension')
                total = None
                if t == 'str':
                    total = cur.u64(e, 'string total size')
                follows = cur.pos - start
                if hdr != follows:
                    raise Structural('raw data index length field is %d but the index occupies %d bytes (type %s) for %s' % (
                        hdr, follows, t, path), field='index length', type=t, stated=hdr, actual=follows)
                obj['index'] = 'full'
                obj['type'] = t
                obj['count'] = count
                obj['total'] = total
            nprops = cur.u32(e, 'property count')
            for _ in range(nprops):
                name = cur.string(e, 'property name')
                code = cur.u32(e, 'property type')
                t = CODE_TO_TYPE.get(code)
                if t is None:
                    raise Structural('unknown property type code 0x%x' % code, field='property type')
                obj['props'].append([name, t, read_prop_value(cur, t, e)])
            seg['objects'].append(obj)
        if cur.pos != data_pos:
            raise Structural('metadata parses to %d bytes but the raw data offset says %d' % (
                cur.pos - meta_start, raw_off), field='raw_off', parsed=cur.pos - meta_start, stated=raw_off)
    elif raw_off != 0:
        raise Structural('no metadata flag but raw data offset %d' % raw_off, field='raw_off')
    # ---- object list and indexes in force (format state machine)
    prev = state or {'active': [], 'last': {}}
    active = [list(a) for a in prev['active']]          # [path, has_data, idx]   idx = {'type', 'count', 'total'}
    last = dict(prev['last'])
    if toc & fmt.TOC_META:
        if (toc & fmt.TOC_NEWOBJ) or state is None:
            active = []
        for obj in seg['objects']:
            if obj['index'] == 'full':
                idx, has = {'type': obj['type'], 'count': obj['count'], 'total': obj['total']}, True
            elif obj['index'] == 'same':
                if obj['path'] not in last:
                    raise Structural('%s refers to its previous raw data index but none was ever stated' % obj['path'],
                                     field='index header')
                idx, has = last[obj['path']], True
            else:
                idx, has = last.get(obj['path']), False
            for a in active:
                if a[0] == obj['path']:
                    a[1], a[2] = has, idx
                    break
            else:
                active.append([obj['path'], has, idx])
            if idx is not None:
                last[obj['path']] = idx
    elif state is None:
        raise Structural('first segment without metadata', field='toc')
    seg['state'] = {'active': active, 'last': last}
    chunk = 0
    for (path, has, idx) in active:
        if has:
            size = fmt.size_of(idx['type'])
            chunk += idx['total'] if size is None else size * idx['count']
    raw_len = next_off - raw_off
    seg['raw_expected'] = chunk
    if chunk == 0:
        nchunks = 0
        if raw_len != 0:
            raise Structural('raw data is %d bytes but the declared types and counts imply %d' % (raw_len, 0),
                             field='raw length', actual=raw_len, implied=0)
    else:
        if raw_len % chunk != 0 or (raw_len == 0 and (toc & fmt.TOC_RAW)):
            raise Structural('raw data is %d bytes but the declared types and counts imply %d' % (raw_len, chunk),
                             field='raw length', actual=raw_len, implied=chunk)
        nchunks = raw_len // chunk
    seg['chunks'] = nchunks
    extents = []
    at = data_pos
    interleaved = bool(toc & fmt.TOC_INTERLEAVED)
    if interleaved and any(has and fmt.size_of(idx['type']) is None for (_p, has, idx) in active):
        raise Structural('interleaved segment with a string channel', field='toc')
    if interleaved and len(set(idx['count'] for (_p, has, idx) in active if has)) > 1:
        raise Structural('interleaved segment with channels of different lengths', field='toc')
    for _c in range(nchunks):
        for (path, has, idx) in active:
            if not has:
                continue
            size = fmt.size_of(idx['type'])
            nbytes = idx['total'] if size is None else size * idx['count']
            extents.append((path, at, at + nbytes))
            if not index and not interleaved and idx['type'] == 'str':
                # string channels: offsets must be cumulative ends and sum up to the stated total
                n = idx['count']
                a, b = at, at + nbytes
                if b - a < 4 * n:
                    raise Structural('string channel %s: total %d smaller than its %d offsets' % (path, b - a, n), field='string total')
                offs = struct.unpack(e + '%dL' % n, buf[a:a + 4 * n]) if n else ()
                prev_o = 0
                for o in offs:
                    if o < prev_o:
                        raise Structural('string offsets not monotone for %s' % path, field='string offsets')
                    prev_o = o
                if 4 * n + prev_o != b - a:
                    raise Structural('string channel %s: offsets end at %d but %d bytes of text follow' % (
                        path, prev_o, b - a - 4 * n), field='string total')
            at += nbytes
    seg['extents'] = extents
    if bool(toc & fmt.TOC_RAW) != (raw_len > 0) and raw_len > 0:
        raise Structural('raw data present without kTocRawData', field='toc')
    return seg


def parse_file(buf, tag=b'TDSm', index=False):
    segs = []
    pos = 0
    state = None
    while pos < len(buf):
        s = parse_segment(buf, pos, tag=tag, index=index, state=state)
        state = s['state']
        segs.append(s)
        pos = s['data_pos'] if index else s['end']
    return segs
