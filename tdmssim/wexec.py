"""Driving the real TdmsWriter through a seeded program on simulated (or real) storage."""
import io
import os

from . import lib, wgen, simfs

SINKS = ['simpath', 'simstream', 'bytesio', 'realpath', 'minimal']


class Trace(object):
    def __init__(self):
        self.calls = []        # per write_segment call: dict(accepted, before, after, ibefore, iafter, exc)
        self.sessions = []     # (first call index, last call index + 1)
        self.model = wgen.WriterModel()
        self.data = b''
        self.index = None
        self.exc = None        # exception escaping the writer's with-block machinery
        self.extents_from_walk = False
        self.arrays = {}       # array objects the program hands to the writer more than once


class MinimalSink(object):
    """A hand-written destination (a tee, a forwarding wrapper, an upload buffer): it can be written to and flushed and
    nothing else - no fileno(), no tell(), no seek(), and reading from it fails.  `getvalue()` is the harness' own window into it."""
    def __init__(self):
        self._parts = []

    def write(self, b):
        b = bytes(b)
        self._parts.append(b)
        return len(b)

    def flush(self):
        pass

    def read(self, n=-1):
        # (the writer tells a stream from a path by the presence of `read`)
        raise OSError('write-only destination')

    def getvalue(self):
        return b''.join(self._parts)


class FalsyBytesIO(io.BytesIO):
    """An in-memory stream whose truth value is False (upload wrappers whose __bool__ means 'has a name', buffers whose
    __len__ is the number of bytes held): whether a stream was given is not a question of its truth value."""
    def __bool__(self):
        return False


class _Lifecycle(object):
    """How the simulated caller brackets a writer session: a with-block, explicit open() ... close(), or - for writers on
    the caller's own streams, which need no opening - neither."""
    def __init__(self, writer, how):
        self.writer, self.how = writer, how

    def __enter__(self):
        if self.how == 'with':
            self.writer.__enter__()
        elif self.how == 'open-close':
            self.writer.open()
        return self.writer

    def __exit__(self, *exc):
        if self.how == 'with':
            return self.writer.__exit__(*exc)
        if self.how == 'open-close':
            self.writer.close()
        return False


def _size(st, sink, name, handles):
    if sink == 'simpath' or sink == 'simstream':
        return len(st.fs.files.get(name, b''))
    if sink in ('bytesio', 'minimal'):
        h = handles.get(name)
        return len(h.getvalue()) if h is not None else 0
    p = os.path.join(st.realdir(), name)
    h = handles.get(name)
    if h is not None and not h.closed:
        h.flush()
    return os.path.getsize(p) if os.path.exists(p) else 0


def run_program(st, program, sink, with_index, name='out.tdms', after_session=None):
    """Executes the sessions; returns Trace.  `after_session(trace, k)` is called after each session end."""
    tr = Trace()
    for _ in steps_program(st, program, sink, with_index, tr, name=name, after_session=after_session):
        pass
    return tr


def steps_program(st, program, sink, with_index, tr, name='out.tdms', after_session=None):
    """The same as a cooperative task: yields after every write_segment call (the writer is then alive, inside its
    with-block) and after every session end, so that a scheduler can interleave several writers."""
    nptdms = lib.nptdms
    streams = {}
    iname = name + '_index'
    call_no = 0
    tr.arrays['__keep__'] = bool(program.get('keep_objects'))
    for k, session in enumerate(program['sessions']):
        mode = program.get('first_mode', 'w') if k == 0 else 'a'
        if sink in ('simpath', 'realpath'):
            target = (simfs.SIM_ROOT + name) if sink == 'simpath' else os.path.join(st.realdir(), name)
            kw = {'index_file': bool(with_index)}
        else:
            if name not in streams:
                if sink == 'simstream':
                    streams[name] = st.fs.stream(name, 'w+b')
                    if with_index:
                        streams[iname] = st.fs.stream(iname, 'w+b')
                else:
                    bio = FalsyBytesIO if program.get('falsy_streams') else io.BytesIO
                    streams[name] = bio() if sink == 'bytesio' else MinimalSink()
                    if with_index:
                        streams[iname] = bio() if sink == 'bytesio' else MinimalSink()
            target = streams[name]
            kw = {'index_file': streams[iname] if with_index else False}
        first = call_no
        how = program.get('lifecycle', 'with')
        if how == 'open-close':
            # (these callers also name the first argument: the documented signature is TdmsWriter(file, mode, version, index_file))
            writer = nptdms.TdmsWriter(file=target, mode=mode, version=program['version'], **kw)
        else:
            writer = nptdms.TdmsWriter(target, mode=mode, version=program['version'], **kw)
        if how == 'bare' and sink in ('simpath', 'realpath'):
            how = 'open-close'          # a writer on a path has to be opened by someone
        with _Lifecycle(writer, how):
            for call in session:
                rec = {'accepted': False, 'exc': None}
                rec['before'] = _size(st, sink, name, streams)
                rec['ibefore'] = _size(st, sink, iname, streams) if with_index else 0
                rec['wmark'] = len(st.fs.writes)
                try:
                    objs = wgen.make_objects(nptdms, call, tr.arrays)
                    how_objs = program.get('objects_as', 'list')
                    writer.write_segment(tuple(objs) if how_objs == 'tuple' else
                                         ((o for o in objs) if how_objs == 'generator' else objs))
                    rec['accepted'] = True
                except Exception as exc:
                    rec['exc'] = '%s: %s' % (type(exc).__name__, exc)
                    rec['must_accept'] = wgen.must_accept(call)
                if sink == 'realpath':
                    # make buffered bytes visible to the size probe.  The handles are private attributes of the writer; if
                    # they cannot be found (renamed by a refactoring) the per-call extents of this trace are rebuilt
                    # from a walk over the finished file instead (Trace.extents_from_walk)
                    handles = [getattr(writer, a, None) for a in ('_file', '_index_file')]
                    if handles[0] is None or not hasattr(handles[0], 'flush'):
                        tr.extents_from_walk = True
                    for f in handles:
                        if f is not None and hasattr(f, 'flush'):
                            f.flush()
                rec['after'] = _size(st, sink, name, streams)
                rec['iafter'] = _size(st, sink, iname, streams) if with_index else 0
                rec['wend'] = len(st.fs.writes)
                if rec['accepted']:
                    tr.model.accept(call)
                tr.calls.append(rec)
                call_no += 1
                yield ('call', call_no)
        tr.sessions.append((first, call_no))
        snapshot(st, sink, name, streams, tr, with_index)
        if tr.extents_from_walk:
            rebuild_extents(tr, with_index)
        if after_session is not None:
            after_session(tr, k)
        yield ('session', k)


def rebuild_extents(tr, with_index):
    """Per-call byte extents from a walk over the finished file: the k-th accepted call wrote the k-th segment."""
    from . import parser
    try:
        segs = parser.parse_file(tr.data)
    except parser.Structural:
        return            # the structural check reports it
    acc = [r for r in tr.calls if r['accepted']]
    ipos = 0
    pos = 0
    k = 0
    for r in tr.calls:
        if r['accepted'] and k < len(segs):
            sg = segs[k]
            r['before'], r['after'] = sg['pos'], sg['end']
            if with_index:
                r['ibefore'] = ipos
                ipos += sg['data_pos'] - sg['pos']
                r['iafter'] = ipos
            pos = sg['end']
            k += 1
        else:
            r['before'] = r['after'] = pos
            r['ibefore'] = r['iafter'] = ipos


def snapshot(st, sink, name, streams, tr, with_index):
    iname = name + '_index'
    if sink in ('simpath', 'simstream'):
        tr.data = st.fs.get(name) if name in st.fs.files else b''
        tr.index = st.fs.get(iname) if with_index and iname in st.fs.files else None
    elif sink in ('bytesio', 'minimal'):
        tr.data = streams[name].getvalue()
        tr.index = streams[iname].getvalue() if with_index else None
    else:
        with open(os.path.join(st.realdir(), name), 'rb') as f:
            tr.data = f.read()
        tr.index = None
        if with_index and os.path.exists(os.path.join(st.realdir(), iname)):
            with open(os.path.join(st.realdir(), iname), 'rb') as f:
                tr.index = f.read()
