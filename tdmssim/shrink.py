"""Delta-debugging minimiser.  Works on cases (JSON-able dicts); a candidate is kept when executing it
still yields a violation with the same oracle tag.  Spec-level candidates are re-validated by the
model (`build`); invalid ones are skipped."""
import copy
import time

from . import fmt
from .world import build, SpecError


def _valid(spec):
    try:
        build(spec)
        return True
    except SpecError:
        return False
    except Exception:
        return False


def spec_candidates(spec):
    """Smaller specs, most aggressive first."""
    segs = spec['segments']
    n = len(segs)
    # drop runs of segments (halves, then singles)
    step = n // 2
    while step >= 1:
        for a in range(0, n, step):
            if n - min(step, n - a) < 1:
                continue
            s2 = copy.deepcopy(spec)
            del s2['segments'][a:a + step]
            yield s2
        step //= 2
    # drop an object everywhere
    for path in list(spec['names']):
        if path == '/':
            pass
        s2 = copy.deepcopy(spec)
        del s2['names'][path]
        for sg in s2['segments']:
            sg['listed'] = [L for L in sg.get('listed', []) if L['path'] != path]
            sg.get('data', {}).pop(path, None)
        yield s2
    for k, sg in enumerate(segs):
        # fewer chunks
        if sg.get('chunks', 0) > 0:
            for nc in (0, 1, sg['chunks'] - 1):
                if nc < sg['chunks']:
                    s2 = copy.deepcopy(spec)
                    s2['segments'][k]['chunks'] = nc
                    for p, v in s2['segments'][k].get('data', {}).items():
                        s2['segments'][k]['data'][p] = v[:nc]
                    if 'buffers' in s2['segments'][k]:
                        s2['segments'][k]['buffers'] = s2['segments'][k]['buffers'][:nc]
                    yield s2
        # drop properties
        for j, L in enumerate(sg.get('listed', [])):
            if L.get('props'):
                s2 = copy.deepcopy(spec)
                s2['segments'][k]['listed'][j]['props'] = []
                yield s2
        # simpler encodings
        if sg.get('endian') == '>':
            s2 = copy.deepcopy(spec)
            s2['segments'][k]['endian'] = '<'
            yield s2
        if sg.get('pad'):
            s2 = copy.deepcopy(spec)
            s2['segments'][k]['pad'] = 0
            yield s2
        if sg.get('layout') == 'interleaved':
            s2 = copy.deepcopy(spec)
            for sg2 in s2['segments'][k:]:
                if sg2.get('layout') == 'interleaved':
                    sg2['layout'] = 'contiguous'
                    if sg2.get('meta', True):
                        break
            yield s2
        if not sg.get('meta', True):
            s2 = copy.deepcopy(spec)
            s2['segments'][k]['meta'] = True
            s2['segments'][k]['listed'] = []
            s2['segments'][k]['new_obj_list'] = False
            yield s2
        # drop a listing
        for j, L in enumerate(sg.get('listed', [])):
            s2 = copy.deepcopy(spec)
            del s2['segments'][k]['listed'][j]
            yield s2
        # smaller counts for fully stated sized objects whose data lives in this segment only
        for j, L in enumerate(sg.get('listed', [])):
            if L.get('index') == 'full' and L.get('type') in fmt.TYPES and L.get('count', 0) > 0:
                size = fmt.size_of(L['type'])
                for nc in sorted({0, 1, L['count'] // 2, L['count'] - 1}):
                    if nc >= L['count']:
                        continue
                    s2 = copy.deepcopy(spec)
                    L2 = s2['segments'][k]['listed'][j]
                    L2['count'] = nc
                    # truncate the data of every segment that uses this index until it is restated
                    ok = True
                    for sg2 in s2['segments'][k:]:
                        if sg2 is not s2['segments'][k] and any(
                                x['path'] == L['path'] and x['index'] == 'full' for x in sg2.get('listed', [])):
                            break
                        d = sg2.get('data', {}).get(L['path'])
                        if d is not None:
                            if size is None:
                                ok = False
                                break
                            sg2['data'][L['path']] = [c[:nc * size] for c in d]
                    if ok and size is not None:
                        yield s2
        # simplify a type to i32 is not attempted: the data would need regenerating


def list_candidates(items, keep_min=0):
    """ddmin-style sublists: drop halves, quarters, ... then single elements."""
    n = len(items)
    if n <= keep_min:
        return
    step = max(1, n // 2)
    while True:
        for a in range(0, n, step):
            cand = items[:a] + items[a + step:]
            if len(cand) >= keep_min and len(cand) < n:
                yield cand
        if step == 1:
            break
        step = max(1, step // 2)


def minimise(case, execute, candidates, tag, budget_s=120, max_exec=3000, log=None):
    """Greedy ddmin: returns (minimised case, number of executions)."""
    t0 = time.time()
    execs = 0
    progress = True
    while progress and execs < max_exec and time.time() - t0 < budget_s:
        progress = False
        for cand in candidates(case):
            if execs >= max_exec or time.time() - t0 > budget_s:
                break
            if 'spec' in cand and cand['spec'] is not case.get('spec') and not _valid(cand['spec']):
                continue
            execs += 1
            try:
                r = execute(cand)
            except Exception:
                continue
            if any(v.tag == tag for v in r.violations):
                case = cand
                progress = True
                break
    return case, execs


def case_size(case):
    import json
    from .world import to_jsonable
    return len(json.dumps(to_jsonable(case)))
