"""Shared plumbing: seed derivation, per-world result record, canonical digests."""
import hashlib
import json
import os


def world_seed(base_seed, prop, tier, run):
    h = hashlib.sha256(('%d:%s:%s:%d' % (base_seed, prop, tier, run)).encode()).digest()
    return int.from_bytes(h[:8], 'big')


def digest(obj):
    return hashlib.sha256(json.dumps(obj, sort_keys=True, separators=(',', ':'), default=_default).encode()).hexdigest()


def _default(o):
    if isinstance(o, (bytes, bytearray)):
        return {'hex': bytes(o).hex()}
    if isinstance(o, (set, frozenset)):
        return sorted(o)
    if isinstance(o, tuple):
        return list(o)
    return repr(o)


def short_hash(obj):
    return int(digest(obj)[:15], 16)


class Result(object):
    """Outcome of executing one case."""
    def __init__(self):
        self.violations = []      # compare.V
        self.known = []           # (finding id, V) masked known findings
        self.log = []             # event log entries (actor, action, args, result digest)
        self.sig = None           # world-shape / abstract-trace signature (hashable, JSON-able)
        self.nontrivial = False
        self.probes = {}
        self.faults = {}
        self.io_events = 0
        self.sim_seconds = 0.0
        self.steps = 0
        self.compared = 0
        self.skipped_ops = 0
        self.backend = 'simfs'
        self.sub_evals = 0        # per-world enumerations (cuts, windows, fault points)

    def probe(self, name, n=1):
        self.probes[name] = self.probes.get(name, 0) + n

    def fault(self, name, n=1):
        self.faults[name] = self.faults.get(name, 0) + n

    def ev(self, *entry):
        self.log.append(entry)

    def digest(self):
        return digest(self.log)

    def summary(self):
        return {
            'violations': [v.as_dict() for v in self.violations],
            'known': [(fid, v.as_dict()) for fid, v in self.known],
            'sig': short_hash(self.sig), 'nontrivial': self.nontrivial, 'probes': self.probes,
            'faults': self.faults, 'io_events': self.io_events, 'sim_seconds': self.sim_seconds, 'steps': self.steps, 'compared': self.compared,
            'skipped_ops': self.skipped_ops, 'backend': self.backend, 'sub_evals': self.sub_evals,
            'digest': self.digest(),
        }


def merge_counts(dst, src):
    for k, v in src.items():
        dst[k] = dst.get(k, 0) + v


VERIF_DIR = os.path.dirname(os.path.dirname(os.path.abspath(__file__)))
