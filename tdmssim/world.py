"""World spec -> (encoded bytes, reference model).

`build(spec)` interprets the *format's* inheritance rules with its own small state machine
(DESIGN.md appendix B) and returns a World: the data-file bytes, the index-file bytes, the
per-segment layout table and the logical content (objects, properties, channel values and a
provenance table).  Nothing here imports nptdms.
"""
import struct
from collections import OrderedDict

from . import fmt


class SpecError(Exception):
    """The spec is not a well-formed file (generator/shrinker candidates are skipped)."""


class Forbidden(SpecError):
    """The spec uses an encoding the format forbids (C02 rejections)."""


# ------------------------------------------------------------------------------------ json
def to_jsonable(o):
    if isinstance(o, (bytes, bytearray)):
        return {'hex': bytes(o).hex()}
    if isinstance(o, dict):
        return {str(k): to_jsonable(v) for k, v in o.items()}
    if isinstance(o, (list, tuple)):
        return [to_jsonable(v) for v in o]
    return o


def from_jsonable(o):
    if isinstance(o, dict):
        if len(o) == 1 and 'hex' in o:
            return bytes.fromhex(o['hex'])
        return {k: from_jsonable(v) for k, v in o.items()}
    if isinstance(o, list):
        return [from_jsonable(v) for v in o]
    return o


# ------------------------------------------------------------------------------------ model
class SegInfo(object):
    __slots__ = ('k', 'pos', 'data_pos', 'end', 'meta_len', 'chunk_size', 'chunks', 'layout', 'endian',
                 'active', 'has_meta', 'unknown')

    def as_dict(self):
        return {s: getattr(self, s) for s in self.__slots__ if s != 'active'}


class Chan(object):
    """Logical content of one channel."""
    def __init__(self, path):
        self.path = path
        self.type = None          # type name, 'daqmx', or None (never given a raw data index)
        self.values = None        # bytearray (sized, LE) | list[str] | None
        self.count = 0
        self.scalers = None       # daqmx: OrderedDict id -> [type name, bytearray LE]
        self.prov = []            # (seg, chunk, first index, count, [(abs start, abs end)], (chunk start, chunk end))
        self.seg_counts = {}      # seg index -> number of values in that segment

    def value_bytes(self, a=0, b=None):
        size = fmt.size_of(self.type)
        b = self.count if b is None else b
        return bytes(self.values[a * size:b * size])


class World(object):
    def __init__(self):
        self.spec = None
        self.data = b''
        self.index = b''
        self.segs = []
        self.objects = []         # paths, order of first appearance
        self.props = {}           # path -> OrderedDict(name -> (type, value))
        self.chans = OrderedDict()  # channel paths (two components) -> Chan
        self.names = {}

    # ---- hierarchy as the statement of C01 words it
    def declared_groups(self):
        return [self.names[p][0] for p in self.objects if len(self.names[p]) == 1]

    def all_groups(self):
        out = []
        for p in self.objects:
            n = self.names[p]
            if n and n[0] not in out:
                out.append(n[0])
        return out

    def group_channels(self, group):
        return [p for p in self.objects if len(self.names[p]) == 2 and self.names[p][0] == group]

    # ---- crash model
    def guaranteed(self, cut):
        """Per channel minimum length when the file is cut at `cut` (values of segments wholly before)."""
        out = {}
        for path, ch in self.chans.items():
            n = 0
            for s in self.segs:
                if s.end <= cut:
                    n += ch.seg_counts.get(s.k, 0)
            out[path] = n
        return out

    def cut_inside_raw(self, cut):
        """True when the first byte lost to the cut is a raw-data byte of some segment (data_pos <= cut < end): that
        segment's metadata is complete and part or all of the raw data it announces is missing."""
        for s in self.segs:
            if s.end > s.data_pos and s.data_pos <= cut < s.end:
                return True
        return False

    def segments_before(self, cut):
        return [s for s in self.segs if s.end <= cut]


def _copy_idx(idx):
    return dict(idx) if idx is not None else None


def _daqmx_dims(data_objs):
    """[(rows, width)] per buffer for the daqmx data objects of a segment."""
    widths = None
    rows = None
    for (_p, _h, idx) in data_objs:
        d = idx['daqmx']
        if widths is None:
            widths = list(d['widths'])
            rows = [None] * len(widths)
        elif list(d['widths']) != widths:
            raise SpecError('daqmx widths differ')
        for sc in d['scalers']:
            b = sc['buffer']
            if b >= len(widths):
                raise SpecError('scaler buffer out of range')
            if rows[b] not in (None, idx['count']):
                raise SpecError('objects of one buffer differ in rows')
            rows[b] = idx['count']
    return [(r or 0, w_) for r, w_ in zip(rows, widths)] if widths is not None else []


def logical_type(idx):
    """The type of the channel's values: the index's type, except for a DAQmx raw data index that states an ordinary data
    type (files of NI FlexLogger): such a channel is a plain array fed from its one scaler."""
    if idx['type'] == 'daqmx' and idx['daqmx'].get('plain'):
        return idx['daqmx']['scalers'][0]['type']
    return idx['type']


def _enc_index(L, idx, e):
    kind = L['index']
    if kind == 'same':
        return struct.pack(e + 'L', 0)
    if kind == 'none':
        return struct.pack(e + 'L', 0xFFFFFFFF)
    if idx['type'] == 'daqmx':
        d = idx['daqmx']
        digital = d['kind'] == 'digital'
        out = struct.pack(e + 'L', fmt.DIGITAL_LINE if digital else fmt.FORMAT_CHANGING)
        if d.get('plain'):
            if len(d['scalers']) != 1 or digital:
                raise SpecError('a DAQmx index with an ordinary data type has one format changing scaler')
            out += struct.pack(e + 'L', fmt.TYPES[d['scalers'][0]['type']][0])
        else:
            out += struct.pack(e + 'L', fmt.DAQMX_RAW_TYPE)
        out += struct.pack(e + 'LQL', 1, idx['count'], len(d['scalers']))
        for sc in d['scalers']:
            code = fmt.DAQMX_CODES[sc['type']]
            if digital:
                out += struct.pack(e + 'LLLBL', code, sc['buffer'], sc['offset'], sc.get('bitmap', 0) & 0xFF,
                                   sc['id'])
            else:
                out += struct.pack(e + 'LLLLL', code, sc['buffer'], sc['offset'], sc.get('bitmap', 0), sc['id'])
        out += struct.pack(e + 'L', len(d['widths']))
        for w in d['widths']:
            out += struct.pack(e + 'L', w)
        return out
    code, size, _ = fmt.TYPES[idx['type']]
    out = struct.pack(e + 'L', 28 if size is None else 20)
    out += struct.pack(e + 'LLQ', code, 1, idx['count'])
    if size is None:
        out += struct.pack(e + 'Q', idx['strbytes'])
    return out


def _obj_bytes(idx):
    if idx['type'] == 'str':
        return idx['strbytes']
    return idx['count'] * fmt.size_of(idx['type'])


def _string_chunk(vals, e):
    off = 0
    head = b''
    body = b''
    for s in vals:
        b = s.encode('utf-8')
        off += len(b)
        head += struct.pack(e + 'L', off)
        body += b
    return head + body


def build(spec, explicit=False, allow_forbidden=False):
    """Encode and interpret a spec.  Raises SpecError / Forbidden.

    explicit=True re-encodes the same logical content with every active data object restated in
    full and kTocNewObjList in every segment (the comparison twin of C02)."""
    w = World()
    w.spec = spec
    w.forbidden = []
    w.names = spec['names']
    version = spec.get('version', 4713)
    segs = spec['segments']
    if not segs:
        raise SpecError('no segments')
    active = []        # [path, has_data, idx]
    last = {}          # path -> idx most recently stated
    seen = set()
    pos = 0
    data_out = []
    index_out = []
    for k, seg in enumerate(segs):
        e = seg.get('endian', '<')
        layout = seg.get('layout', 'contiguous')
        has_meta = seg.get('meta', True)
        new_list = seg.get('new_obj_list', True)
        if not has_meta:
            if k == 0:
                if not allow_forbidden:
                    raise Forbidden('first segment without metadata')
                w.forbidden.append('first segment without metadata')
            listed = []
        else:
            listed = seg.get('listed', [])
            if new_list or k == 0:
                active = []
            else:
                active = [list(a) for a in active]
            paths_here = set()
            for L in listed:
                path = L['path']
                if path not in w.names:
                    raise SpecError('unknown path %r' % path)
                if path in paths_here:
                    raise SpecError('object listed twice in one segment')
                paths_here.add(path)
                kind = L['index']
                if kind == 'full':
                    idx = {'type': L['type'], 'count': L['count']}
                    if L['type'] == 'daqmx':
                        idx['daqmx'] = L['daqmx']
                    elif L['type'] == 'str':
                        idx['strbytes'] = L['strbytes']
                    elif L['type'] not in fmt.TYPES:
                        raise SpecError('bad type')
                    has = True
                elif kind == 'same':
                    if path not in seen:
                        if not allow_forbidden:
                            raise Forbidden('matches-previous for a never-seen path')
                        w.forbidden.append('matches-previous for a never-seen path')
                        idx = None
                        has = False
                    else:
                        if last.get(path) is None:
                            raise SpecError('matches-previous without an index (not generated: don\'t-care)')
                        idx = _copy_idx(last[path])
                        has = True
                elif kind == 'none':
                    idx = _copy_idx(last.get(path))
                    has = False
                else:
                    raise SpecError('bad index kind')
                if len(w.names[path]) < 2 and kind != 'none':
                    raise SpecError('only channels carry data')
                ch = None
                if len(w.names[path]) == 2:
                    ch = w.chans.get(path)
                    if ch is None:
                        ch = w.chans[path] = Chan(path)
                    if idx is not None:
                        if ch.type is not None and ch.type != logical_type(idx):
                            if not allow_forbidden:
                                raise Forbidden('channel changes data type')
                            w.forbidden.append('channel changes data type')
                            # keep encoding: forget the old logical values, they are not compared
                            ch.type = logical_type(idx)
                            ch.values = [] if ch.type == 'str' else bytearray()
                if path not in seen:
                    seen.add(path)
                    w.objects.append(path)
                    w.props[path] = OrderedDict()
                for entry in active:
                    if entry[0] == path:
                        entry[1] = has
                        entry[2] = idx
                        break
                else:
                    active.append([path, has, idx])
                for (name, t, v) in L.get('props', []):
                    w.props[path][name] = (t, v)
        # what the reader must remember per path
        for (path, has, idx) in active:
            if idx is not None:
                last[path] = idx
                ch = w.chans[path]
                if ch.type is None:
                    ch.type = logical_type(idx)
                    if ch.type == 'daqmx':
                        ch.scalers = OrderedDict()
                        for sc in idx['daqmx']['scalers']:
                            ch.scalers[sc['id']] = [sc['type'], bytearray()]
                    elif ch.type == 'str':
                        ch.values = []
                    else:
                        ch.values = bytearray()
                elif ch.type != logical_type(idx):
                    if not allow_forbidden:
                        raise Forbidden('channel changes data type')
                    w.forbidden.append('channel changes data type')
                    ch.type = logical_type(idx)
                    ch.values = [] if ch.type == 'str' else bytearray()
        data_objs = [(p, h, i) for (p, h, i) in active if h]
        for (p, h, i) in data_objs:
            if i is None:
                raise SpecError('data object without index')
        kinds = set('daqmx' if i['type'] == 'daqmx' else ('str' if i['type'] == 'str' else 'sized')
                    for (_p, _h, i) in data_objs)
        eff_layout = layout
        if layout == 'daqmx':
            if kinds - {'daqmx'}:
                raise SpecError('daqmx segment with other data objects')
        else:
            if 'daqmx' in kinds:
                raise SpecError('daqmx object in a non-daqmx segment')
            if layout == 'interleaved':
                if 'str' in kinds:
                    if len(data_objs) != 1:
                        raise SpecError('interleaved with unsized types')
                    eff_layout = 'contiguous'
                elif len(set(i['count'] for (_p, _h, i) in data_objs)) > 1:
                    raise SpecError('interleaved with different lengths')
        chunks = seg.get('chunks', 0)
        dims = None
        if layout == 'daqmx':
            dims = _daqmx_dims(data_objs)
            chunk_size = sum(r * wd for r, wd in dims)
        else:
            chunk_size = sum(_obj_bytes(i) for (_p, _h, i) in data_objs)
        if chunk_size == 0 and chunks != 0:
            raise SpecError('chunks without data')
        # 'less data than expected': the lead-in states a raw data size whose final chunk holds only
        # `short_last` values of every channel (all channels sized, with the same per-chunk count)
        short = seg.get('short_last')
        if short is not None:
            cnts = set(i['count'] for (_p, _h, i) in data_objs)
            if layout == 'daqmx' or 'str' in kinds or len(cnts) != 1 or chunks < 1 or not (0 < short < list(cnts)[0]):
                raise SpecError('short final chunk needs sized channels of one common length')
            if seg.get('next_offset', 'explicit') == 'unknown':
                raise SpecError('short final chunk with unknown offset')
        # ---- metadata bytes
        if has_meta:
            if explicit:
                # restate everything that is active, in active order, plus listed no-data objects
                meta = struct.pack(e + 'L', len(active))
                lmap = {L['path']: L for L in listed}
                for (path, has, idx) in active:
                    meta += fmt.enc_string(path, e)
                    meta += _enc_index({'index': 'full' if has else 'none'}, idx, e)
                    props = lmap.get(path, {}).get('props', [])
                    meta += struct.pack(e + 'L', len(props))
                    for (name, t, v) in props:
                        meta += fmt.enc_string(name, e) + struct.pack(e + 'L', fmt.TYPES[t][0])
                        meta += fmt.enc_prop_value(t, v, e)
            else:
                meta = struct.pack(e + 'L', len(listed))
                amap = {a[0]: a for a in active}
                for L in listed:
                    meta += fmt.enc_string(L['path'], e)
                    meta += _enc_index(L, amap[L['path']][2], e)
                    props = L.get('props', [])
                    meta += struct.pack(e + 'L', len(props))
                    for (name, t, v) in props:
                        meta += fmt.enc_string(name, e) + struct.pack(e + 'L', fmt.TYPES[t][0])
                        meta += fmt.enc_prop_value(t, v, e)
        elif explicit:
            meta = struct.pack(e + 'L', len(active))
            for (path, has, idx) in active:
                meta += fmt.enc_string(path, e)
                meta += _enc_index({'index': 'full' if has else 'none'}, idx, e)
                meta += struct.pack(e + 'L', 0)
        else:
            meta = b''
        pad = seg.get('pad', 0)
        data_pos = pos + fmt.LEAD_IN + len(meta) + pad
        # ---- raw data bytes, values and provenance
        raw = bytearray()
        sdata = seg.get('data', {})
        for c in range(chunks):
            chunk_start = data_pos + len(raw)
            if layout == 'daqmx':
                bufs = seg['buffers'][c]
                if len(bufs) != len(dims):
                    raise SpecError('buffer count')
                starts = []
                for (rows, width), b in zip(dims, bufs):
                    if len(b) != rows * width:
                        raise SpecError('buffer size')
                    starts.append(len(raw))
                    raw += b
                chunk_end = data_pos + len(raw)
                for (path, _h, idx) in data_objs:
                    ch = w.chans[path]
                    n = idx['count']
                    d = idx['daqmx']
                    for sc in d['scalers']:
                        rows, width = dims[sc['buffer']]
                        tsize = fmt.size_of(sc['type'])
                        off = sc['offset'] // 8 if d['kind'] == 'digital' else sc['offset']
                        if off + tsize > width:
                            raise SpecError('scaler outside row')
                        b = bufs[sc['buffer']]
                        col = bytearray()
                        for r in range(rows):
                            col += b[r * width + off:r * width + off + tsize]
                        col = bytearray(fmt.from_endian(sc['type'], bytes(col), e))
                        if d['kind'] == 'digital':
                            # the line is bit (offset mod 8) of the value of the scaler's declared type found at byte
                            # offset // 8, decoded in the segment's byte order
                            bit = sc['offset'] % 8
                            if tsize == 1:
                                col = bytearray(((x >> bit) & 1) for x in col)
                            else:
                                sz = tsize
                                col = bytearray(b''.join(
                                    ((int.from_bytes(col[a:a + sz], 'little') >> bit) & 1).to_bytes(sz, 'little')
                                    for a in range(0, len(col), sz)))
                        if d.get('plain'):
                            ch.values += col          # a plain array of the scaler's type
                            continue
                        ent = ch.scalers.get(sc['id'])
                        if ent is None:
                            ent = ch.scalers[sc['id']] = [sc['type'], bytearray()]
                        elif ent[0] != sc['type']:
                            raise Forbidden('scaler changes data type')
                        ent[1] += col
                    if n:
                        ch.prov.append((k, c, ch.count, n, [(chunk_start, chunk_end)], (chunk_start, chunk_end)))
                    ch.count += n
                    ch.seg_counts[k] = ch.seg_counts.get(k, 0) + n
            elif eff_layout == 'interleaved':
                n = data_objs[0][2]['count'] if data_objs else 0
                if short is not None and c == chunks - 1:
                    n = short
                cols = []
                for (path, _h, idx) in data_objs:
                    b = sdata[path][c]
                    size = fmt.size_of(idx['type'])
                    if len(b) != n * size:
                        raise SpecError('chunk data size')
                    cols.append((size, fmt.to_endian(idx['type'], b, e)))
                for r in range(n):
                    for size, b in cols:
                        raw += b[r * size:(r + 1) * size]
                chunk_end = data_pos + len(raw)
                for (path, _h, idx) in data_objs:
                    ch = w.chans[path]
                    ch.values += sdata[path][c]
                    if n:
                        ch.prov.append((k, c, ch.count, n, [(chunk_start, chunk_end)], (chunk_start, chunk_end)))
                    ch.count += n
                    ch.seg_counts[k] = ch.seg_counts.get(k, 0) + n
            else:
                pending = []
                for (path, _h, idx) in data_objs:
                    v = sdata[path][c]
                    a = data_pos + len(raw)
                    if short is not None and c == chunks - 1:
                        if len(v) != short * fmt.size_of(idx['type']):
                            raise SpecError('short chunk data size')
                        b = fmt.to_endian(idx['type'], v, e)
                    elif idx['type'] == 'str':
                        if len(v) != idx['count']:
                            raise SpecError('string count')
                        b = _string_chunk(v, e)
                        if len(b) != idx['strbytes']:
                            raise SpecError('string chunk byte total')
                    else:
                        if len(v) != idx['count'] * fmt.size_of(idx['type']):
                            raise SpecError('chunk data size')
                        b = fmt.to_endian(idx['type'], v, e)
                    raw += b
                    pending.append((path, idx, v, a, a + len(b)))
                chunk_end = data_pos + len(raw)
                for (path, idx, v, a, b_) in pending:
                    ch = w.chans[path]
                    n = idx['count'] if not (short is not None and c == chunks - 1) else short
                    if ch.type == 'str':
                        ch.values.extend(v)
                    else:
                        ch.values += v
                    if n:
                        ch.prov.append((k, c, ch.count, n, [(a, b_)], (chunk_start, chunk_end)))
                    ch.count += n
                    ch.seg_counts[k] = ch.seg_counts.get(k, 0) + n
            if short is not None and c == chunks - 1:
                if len(raw) != c * chunk_size + chunk_size * short // list(cnts)[0]:
                    raise SpecError('short chunk size mismatch')
            elif len(raw) != (c + 1) * chunk_size:
                raise SpecError('chunk size mismatch')
        unknown = seg.get('next_offset', 'explicit') == 'unknown'
        if unknown and k != len(segs) - 1:
            raise SpecError('unknown next-segment offset only on the last segment')
        if unknown and chunks > 1 and 'str' in kinds:
            raise SpecError('unknown offset with multi-chunk strings')
        toc = 0
        if has_meta or explicit:
            toc |= fmt.TOC_META
            if new_list or explicit:
                toc |= fmt.TOC_NEWOBJ
        raw_flag = seg.get('raw_flag')
        if raw_flag is None:
            raw_flag = len(raw) > 0
        if len(raw) > 0 and not raw_flag:
            raise SpecError('raw data without kTocRawData')
        if raw_flag:
            toc |= fmt.TOC_RAW
        if layout == 'interleaved':
            toc |= fmt.TOC_INTERLEAVED
        if layout == 'daqmx':
            toc |= fmt.TOC_DAQMX
            if seg.get('toc_interleaved'):
                toc |= fmt.TOC_INTERLEAVED        # files written by DAQmx state both flags; rows are interleaved either way
        if e == '>':
            toc |= fmt.TOC_BIGENDIAN
        raw_off = len(meta) + pad
        next_off = fmt.UNKNOWN_OFFSET if unknown else raw_off + len(raw)
        body = meta + b'\x00' * pad
        data_out.append(fmt.enc_lead_in(b'TDSm', toc, version, next_off, raw_off, e) + body + bytes(raw))
        index_out.append(fmt.enc_lead_in(b'TDSh', toc, version, next_off, raw_off, e) + body)
        si = SegInfo()
        si.k = k
        si.pos = pos
        si.data_pos = data_pos
        si.end = data_pos + len(raw)
        si.meta_len = len(meta)
        si.chunk_size = chunk_size
        si.chunks = chunks
        si.layout = eff_layout if layout != 'daqmx' else 'daqmx'
        si.endian = e
        si.active = [(p, h, _copy_idx(i)) for (p, h, i) in active]
        si.has_meta = has_meta
        si.unknown = unknown
        w.segs.append(si)
        pos = si.end
    w.data = b''.join(data_out)
    w.index = b''.join(index_out)
    return w
