"""Consumer operations on a TdmsFile handle, normalised results, and the model's answer.

The model's answer for any read is `full[idxs]` where idxs = numpy indexing applied to
arange(len(full)) - i.e. "what the same index returns on the full NumPy array"."""
import struct

import numpy as np

from . import fmt, compare
from .compare import V

TS_LE = compare.TS_LE


# ------------------------------------------------------------------ normalisation of library results
def norm(x):
    """Canonical, comparable and JSON-able form of anything a read returns."""
    from .lib import nptdms
    TimestampArray = nptdms.timestamp.TimestampArray
    TdmsTimestamp = nptdms.timestamp.TdmsTimestamp
    if isinstance(x, dict):
        return ('dict', sorted((int(k), norm(v)) for k, v in x.items()))
    if isinstance(x, TimestampArray):
        if x.ndim == 0:
            return ('rawts1', int(x['seconds']), int(x['second_fractions']))
        return ('rawts', len(x), compare.raw_ts_bytes(x).hex())
    if isinstance(x, TdmsTimestamp):
        return ('rawts1', int(x.seconds), int(x.second_fractions))
    if isinstance(x, np.ndarray):
        if x.dtype.kind == 'O':
            return ('strs', [v for v in x])
        if x.dtype.names is not None:
            return ('rawts', len(x), compare.raw_ts_bytes(x).hex())
        if x.dtype.kind == 'M':
            return ('arr', str(x.dtype.newbyteorder('=')), len(x), compare.le_bytes(x.view('i8')).hex())
        if x.dtype.kind == 'V':
            return ('arr', 'V', len(x), '')
        return ('arr', x.dtype.kind + str(x.dtype.itemsize), int(x.shape[0]) if x.ndim else -1, compare.le_bytes(x).hex())
    if isinstance(x, np.generic):
        if x.dtype.kind == 'M':
            return ('scalar', str(x.dtype.newbyteorder('=')), compare.le_bytes(np.asarray(x).view('i8')).hex())
        if x.dtype.names is not None:
            return ('rawts1', int(x['seconds']), int(x['second_fractions']))
        return ('scalar', x.dtype.kind + str(x.dtype.itemsize), compare.le_bytes(np.asarray(x)).hex())
    if isinstance(x, str):
        return ('str', x)
    if isinstance(x, (list, tuple)):
        if all(isinstance(v, str) for v in x):
            # string chunks are plain lists; the container type is C14's business, not a value difference
            return ('strs', list(x))
        return ('list', [norm(v) for v in x])
    if x is None:
        return ('none',)
    return ('other', type(x).__name__, repr(x)[:100])


def concat_norm(parts, empty_like=None):
    """Normalised concatenation of array-like chunks (for chunk streams)."""
    parts = [p for p in parts]
    if not parts:
        return None

    def _n(p):
        return len(p[1]) if p[0] == 'strs' else (p[1] if p[0] == 'rawts' else (p[2] if p[0] == 'arr' else 1))
    # empty chunks may be of another container/dtype than full ones; that is C14's business
    nonempty = [p for p in parts if _n(p) > 0]
    parts = nonempty or parts[:1]
    kinds = set(p[0] for p in parts)
    if kinds == {'strs'}:
        return ('strs', [v for p in parts for v in p[1]])
    if kinds == {'rawts'}:
        return ('rawts', sum(p[1] for p in parts), ''.join(p[2] for p in parts))
    if kinds == {'arr'}:
        # empty chunks may carry another dtype; C14 judges that, not the concatenation
        dts = [p[1] for p in parts if p[2] > 0] or [parts[0][1]]
        if len(set(dts)) != 1:
            return ('mixed', sorted(set(dts)))
        return ('arr', dts[0], sum(p[2] for p in parts), ''.join(p[3] for p in parts))
    if kinds == {'dict'}:
        ids = [k for k, _ in parts[0][1]]
        out = []
        for i, sid in enumerate(ids):
            out.append((sid, concat_norm([p[1][i][1] for p in parts])))
        return ('dict', out)
    return ('mixed', sorted(kinds))


def as_indices(idxs):
    """Index lists as given by callers (ranges, arrays, lists) without a per-element Python loop for long ones."""
    if isinstance(idxs, range):
        return np.arange(idxs.start, idxs.stop, idxs.step, dtype=np.int64) if len(idxs) >= 64 else list(idxs)
    if isinstance(idxs, np.ndarray):
        return idxs.astype(np.int64, copy=False) if len(idxs) >= 64 else [int(i) for i in idxs]
    return [int(i) for i in idxs]


def gather(buf, idxs, width):
    """b''.join(buf[i*width:(i+1)*width] for i in idxs) for bytes (or the same for an ASCII str), fast for long index lists."""
    is_str = isinstance(buf, str)
    if len(idxs) < 64 or width == 0:
        if is_str:
            return ''.join(buf[i * width:(i + 1) * width] for i in idxs)
        return b''.join(bytes(buf[i * width:(i + 1) * width]) for i in idxs)
    raw = buf.encode('ascii') if is_str else bytes(buf)
    n = len(raw) // width
    a = np.frombuffer(raw, dtype='V%d' % width, count=n)
    out = a[np.asarray(idxs, dtype=np.int64)].tobytes()      # IndexError for an index outside the data, as the slow path's analogue
    return out.decode('ascii') if is_str else out


# ------------------------------------------------------------------ the model's answer
def model_norm(ch, idxs, raw_ts, scaler=None):
    """Normalised model values of channel `ch` at positions idxs (array of ints).  For converted
    timestamps returns ('ts-us', [(sec, frac), ...]) which is compared with tolerance."""
    idxs = as_indices(idxs)
    if ch.type is None:
        return ('arr', 'V', 0, '')
    if ch.type == 'daqmx':
        t, vals = ch.scalers[scaler]
        size = fmt.size_of(t)
        dt = np.dtype(fmt.TYPES[t][2])
        b = gather(vals, idxs, size)
        return ('arr', dt.kind + str(dt.itemsize), len(idxs), b.hex())
    if ch.type == 'str':
        return ('strs', [ch.values[i] for i in idxs])
    size = fmt.size_of(ch.type)
    b = gather(ch.values, idxs, size)
    if ch.type == 'ts':
        if raw_ts:
            return ('rawts', len(idxs), b.hex())
        return ('ts-us', [struct.unpack_from('<Qq', b, k * 16)[::-1] for k in range(len(idxs))])
    dt = np.dtype(fmt.TYPES[ch.type][2])
    return ('arr', dt.kind + str(dt.itemsize), len(idxs), b.hex())


def model_scalar(ch, i, raw_ts):
    if ch.type == 'str':
        return ('str', ch.values[i])
    size = fmt.size_of(ch.type)
    b = bytes(ch.values[i * size:(i + 1) * size])
    if ch.type == 'ts':
        frac, sec = struct.unpack('<Qq', b)
        return ('rawts1', sec, frac) if raw_ts else ('ts-us', [(sec, frac)])
    dt = np.dtype(fmt.TYPES[ch.type][2])
    return ('scalar', dt.kind + str(dt.itemsize), b.hex())


def agree(got, exp):
    """Library normal form equals the model's (tolerant only for converted timestamps and void)."""
    if exp is None:
        return True
    if exp[0] == 'ts-us':
        pairs = exp[1]
        if got[0] == 'arr':
            if not got[1].startswith('datetime64[us]') or got[2] != len(pairs):
                return False
            vals = np.frombuffer(bytes.fromhex(got[3]), dtype='<i8')
        elif got[0] == 'scalar':
            if not got[1].startswith('datetime64[us]') or len(pairs) != 1:
                return False
            vals = np.frombuffer(bytes.fromhex(got[2]), dtype='<i8')
        else:
            return False
        e0 = int(compare.EPOCH_US.astype('i8'))
        return all(compare.us_within_one(int(v) - e0, s, f) for v, (s, f) in zip(vals, pairs))
    if exp[0] == 'arr' and exp[2] == 0 and got[0] in ('arr', 'strs', 'rawts'):
        # empty results: only emptiness is compared here, the dtype of empties is C14's business
        n = got[2] if got[0] == 'arr' else (len(got[1]) if got[0] == 'strs' else got[1])
        return n == 0
    if exp[0] in ('strs', 'rawts') and got[0] == 'arr' and got[2] == 0:
        n = len(exp[1]) if exp[0] == 'strs' else exp[1]
        return n == 0
    return got == exp


def expected_indices(n, op):
    """('idx', list) or ('exc', name) for an op on a channel of length n; None when the op has no
    defined answer in the statement (e.g. negative read_data offset)."""
    ar = np.arange(n)
    kind = op['op']
    if kind in ('full', 'ellipsis', 'data', 'raw_data', 'iter', 'chunks', 'file_chunks', 'read_all',
                'read_all_unscaled'):
        return ('idx', ar)
    if kind == 'read_data':
        off, ln = op['offset'], op['length']
        if off < 0 or (ln is not None and ln < 0):
            return None
        return ('idx', ar[off:] if ln is None else ar[off:off + ln])
    if kind == 'slice':
        if op['step'] == 0:
            return ('exc', 'ValueError')
        return ('idx', ar[slice(op['start'], op['stop'], op['step'])])
    if kind == 'index':
        i = op['i']
        if i < -n or i >= n:
            return ('exc', 'IndexError')
        return ('idx1', int(ar[i]))
    raise ValueError(kind)


# ------------------------------------------------------------------ executing ops
def chan(tf, w, path):
    g, c = w.names[path]
    return tf[g][c]


class KeptChannels(dict):
    """What is left when the caller keeps the channel objects and lets go of the TdmsFile they came from
    (`ch = TdmsFile.open(p)[g][c]`, a helper that returns channels): looks like tf[group][channel] to `chan`."""
    def __init__(self, tf, w):
        dict.__init__(self)
        self.file_status = getattr(tf, 'file_status', None)      # a plain record, taken while the file object exists
        for path, names in w.names.items():
            if len(names) == 2:
                try:
                    self.setdefault(names[0], {})[names[1]] = tf[names[0]][names[1]]
                except KeyError:
                    pass

    def close(self):
        pass


def _npint(name, v):
    return v if v is None else getattr(np, name)(v)


def do_op(tf, w, op):
    """Run one direct read op; returns the raw library result (exceptions propagate)."""
    c = chan(tf, w, op['ch'])
    kind = op['op']
    if kind == 'full':
        return c[:]
    if kind == 'ellipsis':
        return c[...]
    if kind == 'read_all':
        return c.read_data()
    if kind == 'read_all_unscaled':
        return c.read_data(scaled=False)
    if kind == 'read_data':
        if op.get('np'):
            # positions computed with numpy (searchsorted, argmax, a column of an index table) are numpy integers
            return c.read_data(_npint(op['np'], op['offset']), _npint(op['np'], op['length']), op.get('scaled', True))
        return c.read_data(op['offset'], op['length'], op.get('scaled', True))
    if kind == 'slice':
        if op.get('np'):
            return c[_npint(op['np'], op['start']):_npint(op['np'], op['stop']):_npint(op['np'], op['step'])]
        return c[op['start']:op['stop']:op['step']]
    if kind == 'index':
        if op.get('np'):
            return c[getattr(np, op['np'])(op['i'])]       # a numpy integer is an integer too
        return c[op['i']]
    if kind == 'data':
        return c.data
    if kind == 'raw_data':
        return c.raw_data
    if kind == 'raw_scaler_data':
        return c.raw_scaler_data
    if kind == 'iter':
        return list(iter(c))
    if kind == 'chunks':
        return [(ck.offset, ck[:]) for ck in c.data_chunks()]
    raise ValueError(kind)


def norm_iter_list(vals):
    """Normal form of list(iter(channel)) as if it were an array."""
    if not vals:
        return ('arr', '?', 0, '')
    first = vals[0]
    if isinstance(first, str):
        return ('strs', list(vals))
    from .lib import nptdms
    if isinstance(first, nptdms.timestamp.TdmsTimestamp):
        b = b''.join(struct.pack('<Qq', int(v.second_fractions), int(v.seconds)) for v in vals)
        return ('rawts', len(vals), b.hex())
    arr = np.array(vals)
    if isinstance(first, np.generic):
        arr = np.array(vals, dtype=first.dtype)
    return norm(arr)


def try_op(fn):
    """(normalised result | None, exception class name | None, exception)"""
    try:
        return fn(), None, None
    except Exception as exc:      # noqa: the class is what the oracles look at
        return None, exc_class(exc), exc


_BUILTIN_EXC = (IndexError, KeyError, ValueError, TypeError, OSError, EOFError, RuntimeError, AttributeError,
                ZeroDivisionError, OverflowError, MemoryError, AssertionError, StopIteration)


def exc_class(exc):
    """The name of the nearest built-in exception class of `exc`: a library-defined subclass of IndexError is an
    IndexError as far as any statement of the form "raises IndexError" goes."""
    for cls in type(exc).__mro__:
        if cls in _BUILTIN_EXC:
            return cls.__name__
    return type(exc).__name__


class Keeper(object):
    """Holds the objects reads returned together with their normal form at return time; `mutated()`
    re-normalises them later: a result that changed after it was handed out means some later read
    wrote into memory the caller already owns (aliased buffers, shared caches)."""
    def __init__(self, limit=400):
        self.items = []
        self.limit = limit

    def keep(self, label, obj, normal=None):
        if len(self.items) >= self.limit or obj is None:
            return
        import numpy as np
        if isinstance(obj, (np.ndarray, dict, list)):
            self.items.append((label, obj, normal if normal is not None else norm(obj)))

    def mutated(self):
        out = []
        for label, obj, before in self.items:
            try:
                after = norm(obj)
            except Exception as exc:
                after = ('exc', type(exc).__name__)
            if after != before:
                out.append((label, before, after))
        return out
