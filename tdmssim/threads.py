"""Deterministic interleaving of real threads.

`Interleaver(seed, switch_p).run([fn0, fn1, ...])` runs the callables in real threads but lets exactly one of them
execute at any time: a thread owns a baton while it runs, and at pre-emption points - every 'line' trace event inside
the code under test (files below `trace_prefix`) - a seeded PRNG decides whether the baton goes to another live
thread.  Who runs is therefore a pure function of (seed, code): the same seed replays the same interleaving, and
the harness, numpy and the interpreter's own scheduler never choose.  The other threads are parked on a condition
variable (released GIL, no progress), so the documented claim "a TdmsFile read with TdmsFile.read is safe to read
from concurrently" is exercised one deterministic schedule at a time.

Only threads started by `run` are traced; tracing costs a few microseconds per line of library code."""
import os
import random
import sys
import threading


class InterleaveError(Exception):
    pass


class Interleaver(object):
    def __init__(self, seed, switch_p=0.2, trace_prefix=None, max_switches=400, wait_s=10.0):
        self.rng = random.Random(seed)
        self.switch_p = switch_p
        self.prefix = os.path.realpath(trace_prefix) + os.sep if trace_prefix else None
        self.max_switches = max_switches
        self.wait_s = wait_s
        self.cv = threading.Condition()
        self.owner = None
        self.live = []
        self.switches = 0
        self.points = 0
        self.trace = []           # (pre-emption point number, from, to): the schedule actually taken

    # -- baton
    def _wait_for_baton(self, i):
        with self.cv:
            while self.owner != i:
                if not self.cv.wait(self.wait_s):
                    raise InterleaveError('thread %d waited %.0fs for the baton' % (i, self.wait_s))

    def _pass(self, i, j):
        with self.cv:
            self.owner = j
            self.cv.notify_all()
        if j != i:
            self._wait_for_baton(i)

    def _point(self, i):
        self.points += 1
        if len(self.live) < 2 or self.switches >= self.max_switches:
            return
        if self.rng.random() < self.switch_p:
            others = [t for t in self.live if t != i]
            j = others[self.rng.randrange(len(others))]
            self.switches += 1
            self.trace.append((self.points, i, j))
            self._pass(i, j)

    def _tracer_for(self, i):
        prefix = self.prefix

        def local(frame, event, arg):
            if event == 'line':
                self._point(i)
            return local

        def tracer(frame, event, arg):
            if event != 'call':
                return None
            fn = frame.f_code.co_filename
            if frame.f_code.co_name in ('__repr__', '__str__', '__format__'):
                # formatting methods run under the logging module's handler lock when a record is emitted: a thread
                # parked there would block every other thread that logs.  No pre-emption inside them.
                return None
            if prefix is None or fn.startswith(prefix):
                return local
            return None
        return tracer

    def run(self, fns):
        """[('ok', value) | ('exc', exception)] in the order of fns."""
        n = len(fns)
        results = [None] * n
        self.live = list(range(n))

        def body(i):
            try:
                self._wait_for_baton(i)
                sys.settrace(self._tracer_for(i))
                try:
                    results[i] = ('ok', fns[i]())
                except Exception as exc:           # noqa: reported to the caller
                    results[i] = ('exc', exc)
                finally:
                    sys.settrace(None)
            except BaseException as exc:           # noqa
                results[i] = ('exc', exc)
            finally:
                with self.cv:
                    if i in self.live:
                        self.live.remove(i)
                    if self.owner == i:
                        self.owner = self.live[0] if self.live else None
                    self.cv.notify_all()
        threads = [threading.Thread(target=body, args=(i,), daemon=True) for i in range(n)]
        first = self.rng.randrange(n)
        for t in threads:
            t.start()
        with self.cv:
            self.owner = first
            self.cv.notify_all()
        for t in threads:
            t.join(self.wait_s * 2)
            if t.is_alive():
                raise InterleaveError('a thread did not finish')
        return results
