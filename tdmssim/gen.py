"""Seeded generator of world specs.  Walks the format's state machine forward so that every
emitted header choice is valid by construction; `world.build` re-validates and the caller retries
on SpecError.  Everything is drawn from one `random.Random`."""
import struct

from . import fmt
from .world import build, SpecError, Forbidden

LETTERS = 'abcxyzGC'
NASTY = ["'", '/', ' ', 'a', 'é', '√', "''", "'/'", '\U0001F600', 'ß']


# text that coincides with the format's own markers (a "TDS meter" channel, a unit called TDSh): payload is payload
MAGIC_TEXT = ['TDSm', 'TDSh', 'TDSmeter', 'xTDSh', 'TDSmTDSm', '_index', '.tdms']


def gen_name(rng, nasty):
    if rng.random() < 0.03:
        return rng.choice(MAGIC_TEXT)
    if nasty and rng.random() < 0.5:
        n = rng.randint(0, 4)
        return ''.join(rng.choice(NASTY) for _ in range(n))
    return ''.join(rng.choice(LETTERS) for _ in range(rng.randint(1, 4)))


def gen_text(rng, nbytes=None):
    """Random text; with nbytes its UTF-8 encoding is exactly that long."""
    alphabet = ['a', 'b', 'Z', '0', ' ', '\x00', 'é', 'ß', '√', '€', '\U0001F600', '\U00010348', '\n', "'"]
    if nbytes is None:
        r = rng.random()
        if r < 0.15:
            return ''
        if r < 0.19:
            return rng.choice(MAGIC_TEXT)
        n = rng.randint(1, 6) if r < 0.9 else rng.randint(100, 300)
        return ''.join(rng.choice(alphabet) for _ in range(n))
    out = []
    left = nbytes
    while left > 0:
        c = rng.choice(alphabet)
        k = len(c.encode('utf-8'))
        if k > left:
            c = 'x'
            k = 1
        out.append(c)
        left -= k
    return ''.join(out)


def gen_values(rng, t, n, ts_range=None):
    """n logical values of sized type t as little-endian bytes."""
    size = fmt.size_of(t)
    if n == 0:
        return b''
    if n > 20000 and t not in ('bool', 'ts'):
        # huge arrays (beyond any block / buffer size a reader or writer may use): random bytes, finite floats
        import numpy as np
        b = bytearray(rng.randbytes(n * size))
        step = 4 if t in ('f32', 'f32u', 'c64') else (8 if t in ('f64', 'f64u', 'c128') else 0)
        if step:
            hi = np.frombuffer(b, dtype=np.uint8)[step - 1::step]      # a view: writes go to b
            mask = (hi & 0x7F) >= 0x7F
            hi[mask] = (hi[mask] & 0x3F) | 0x40
            del hi
        return bytes(b)
    if t == 'bool':
        return bytes(rng.getrandbits(1) for _ in range(n))
    if t == 'ts':
        out = bytearray()
        for _ in range(n):
            r = rng.random()
            if r < 0.1:
                frac = rng.choice([0, 2**64 - 1, 2**63, 1])
            else:
                frac = rng.getrandbits(64)
            if ts_range is not None:
                sec = rng.randint(-ts_range, ts_range) if rng.random() < 0.9 else rng.choice([0, -1, 1])
            elif r < 0.2:
                sec = rng.choice([0, -1, 2**63 - 1, -2**63])
            else:
                sec = rng.getrandbits(64) - 2**63
            out += struct.pack('<Qq', frac, sec)
        return bytes(out)
    b = bytearray(rng.randbytes(n * size))
    # sprinkle extremes
    if t in fmt.INT_RANGE:
        lo, hi = fmt.INT_RANGE[t]
        code = fmt.PROP_STRUCT[t]
        for i in range(n):
            if rng.random() < 0.25:
                v = rng.choice([lo, hi, 0, 1, hi - 1, lo + 1] + ([-1] if lo < 0 else []))
                b[i * size:(i + 1) * size] = struct.pack('<' + code, v)
    elif t in ('f32', 'f64', 'f32u', 'f64u', 'c64', 'c128'):
        fs = 4 if t in ('f32', 'f32u', 'c64') else 8
        code = 'f' if fs == 4 else 'd'
        for i in range(len(b) // fs):
            r = rng.random()
            if r < 0.3:
                v = rng.choice([0.0, -0.0, 1.0, -1.5, float('inf'), float('-inf'), 1e-310 if fs == 8 else 1e-40,
                                3.5, 1e30, 123456.75])
                b[i * fs:(i + 1) * fs] = struct.pack('<' + code, v)
            elif r < 0.35:
                # NaN with payload
                if fs == 4:
                    b[i * fs:(i + 1) * fs] = struct.pack('<L', 0x7FC00000 | rng.getrandbits(22) | (rng.getrandbits(1) << 31))
                else:
                    b[i * fs:(i + 1) * fs] = struct.pack('<Q', 0x7FF8000000000000 | rng.getrandbits(51) |
                                                          (rng.getrandbits(1) << 63))
    return bytes(b)


def gen_prop(rng, name=None, ts_range=2**36, types=None):
    t = rng.choice(types or fmt.PROP_TYPES)
    if name is None:
        name = rng.choice(['p', 'q', 'unit_string', 'wf_increment', 'é', 'NI_x', 'description', 'r'])
    if t in fmt.INT_RANGE:
        lo, hi = fmt.INT_RANGE[t]
        v = rng.choice([lo, hi, 0, rng.randint(lo, hi), rng.randint(-100, 100) if lo < 0 else rng.randint(0, 100)])
    elif t in ('f32', 'f64', 'f32u', 'f64u'):
        v = gen_values(rng, t, 1)
    elif t == 'str':
        v = gen_text(rng)
    elif t == 'bool':
        v = rng.random() < 0.5
    else:
        b = gen_values(rng, 'ts', 1, ts_range)
        frac, sec = struct.unpack('<Qq', b)
        v = [sec, frac]
    return [name, t, v]


class Opts(object):
    """Generator options; profiles override fields."""
    def __init__(self, **kw):
        self.max_segments = 6
        self.many_segments_p = 0.03      # chance of 100+ segments
        self.max_groups = 3
        self.max_channels = 5
        self.types = list(fmt.ALL_TYPES)
        self.p_big_endian = 0.25         # per world: '<' only / '>' only / mixed
        self.p_interleaved = 0.3
        self.p_no_meta = 0.2
        self.p_keep_list = 0.5           # kTocNewObjList unset
        self.p_same = 0.4
        self.p_unlisted = 0.5
        self.p_none = 0.15
        self.max_count = 9
        self.big_count_p = 0.02
        self.max_chunks = 4
        self.props = True
        self.nasty_names = 0.15
        self.pad_p = 0.05
        self.ts_range = 2**36            # None = full int64 seconds
        self.typeless_p = 0.1
        self.unknown_offset_p = 0.0
        self.version = None
        self.scaling = None              # callable(rng, spec, chan types) adding NI_Scale properties
        self.equal_shapes_p = 0.0        # chance that all channels share counts (index de-duplication)
        self.huge_p = 0.0                # chance per world of one very long channel chunk (block / buffer / cache size thresholds)
        self.max_world_bytes = 6 * 2**20   # raw data of the segments that carry a long chunk (> 64 KiB), per world
        self.huge_classes = ['k64', 'm1']  # just over 2^16 values; 1.05-2.3 MiB; 'm16' = just over 2^24 bytes
        self.short_last_p = 0.0          # chance per eligible segment of a stated short final chunk ("less data than expected")
        self.common_names_p = 0.3        # chance per world that names come from a tiny fixed pool: files handled one after another
                                         # in a process then share object paths, as files from one measurement setup do
        self.flip_layout_p = 0.12        # chance per metadata-less segment (two or more data objects) that it states the other data layout
        self.declared_huge_p = 0.0       # chance per world that the last segment states a chunk of 4 GiB of which only a little was written
        self.long_run_p = 0.0            # chance per world of 100-260 consecutive metadata-less segments (a streamed file)
        self.very_long_run_p = 0.0       # ... of 1000-1300 of them (a fragmented log; deeper than any per-segment recursion)
        self.__dict__.update(kw)


def deepen(o, tier):
    """Thorough tier: larger worlds (more segments, channels, values per chunk, chunks; rare shapes twice as often)."""
    if tier != 'thorough':
        return o
    o.max_segments = int(o.max_segments * 1.5) + 1
    o.max_channels += 1
    o.max_count = min(24, o.max_count * 2)
    o.max_chunks += 2
    for k in ('many_segments_p', 'long_run_p', 'very_long_run_p', 'huge_p', 'big_count_p'):
        setattr(o, k, min(0.2, getattr(o, k) * 2))
    return o


def _names(rng, o):
    fixed = getattr(o, 'fixed_names', None)
    if fixed is not None:
        names = {k: list(v) for k, v in fixed.items()}
        return names, [p for p, n in names.items() if len(n) == 1], [p for p, n in names.items() if len(n) == 2]
    nasty = rng.random() < o.nasty_names
    common = rng.random() < o.common_names_p
    names = {'/': []}
    groups = []
    if common:
        name_of = lambda kind: rng.choice(['G', 'H'] if kind == 'g' else ['a', 'b', 'c', 'd'])
    else:
        name_of = lambda kind: gen_name(rng, nasty)
    for _ in range(rng.randint(1, o.max_groups)):
        g = name_of('g')
        if g not in groups:
            groups.append(g)
    chans = []
    nch = rng.randint(0 if rng.random() < 0.03 else 1, o.max_channels)
    for _ in range(nch):
        g = rng.choice(groups)
        c = name_of('c')
        p = fmt.quote_path(g, c)
        if p not in names:
            names[p] = [g, c]
            chans.append(p)
    gpaths = []
    for g in groups:
        p = fmt.quote_path(g)
        names[p] = [g]
        gpaths.append(p)
    return names, gpaths, chans


def gen_spec(rng, o):
    names, gpaths, chans = _names(rng, o)
    ctype = {}
    for p in chans:
        ctype[p] = None if rng.random() < o.typeless_p else rng.choice(o.types)
    r = rng.random()
    endian_mode = '<' if r > o.p_big_endian else ('>' if r < o.p_big_endian / 2 else 'mixed')
    nseg = rng.randint(1, o.max_segments)
    if rng.random() < o.many_segments_p:
        nseg = rng.randint(100, 130)
    equal_shapes = rng.random() < o.equal_shapes_p
    huge = rng.random() < o.huge_p
    huge_done = False
    big_emitted = False
    world_bytes = 0
    run_left = 0
    run_at = None
    if o.long_run_p and rng.random() < o.long_run_p:
        nseg = rng.randint(2, 4)
        run_at = rng.randint(1, nseg - 1)
        run_len = rng.randint(100, 260)
        if o.very_long_run_p and rng.random() < o.very_long_run_p / o.long_run_p:
            run_len = rng.randint(1000, 1300)
        nseg += run_len
    common_count = rng.randint(1, o.max_count)
    spec = {'version': o.version or rng.choice([4712, 4713]), 'names': names, 'segments': []}
    active = []       # [path, has, idx]
    last = {}
    seen = set()
    declared_root = False
    for k in range(nseg):
        seg = {}
        e = endian_mode if endian_mode != 'mixed' else rng.choice('<>')
        seg['endian'] = e
        meta = k == 0 or rng.random() >= o.p_no_meta
        if run_at is not None and k == run_at:
            run_left = run_len
        if run_left > 0 and any(a[1] for a in active):
            meta = False       # a long run of raw-data-only segments re-using one object list
            run_left -= 1
        seg['meta'] = meta
        light = nseg > 20      # keep giant files cheap
        if meta:
            new_list = k == 0 or rng.random() >= o.p_keep_list
            seg['new_obj_list'] = new_list
            if new_list:
                active = []
            else:
                active = [list(a) for a in active]
            interleaved = rng.random() < o.p_interleaved
            ilv_count = rng.randint(0, o.max_count) if rng.random() < 0.9 else 0
            listed = []
            # which objects are mentioned in this segment
            cands = []
            if (k == 0 and rng.random() < 0.9) or rng.random() < 0.15:
                cands.append('/')
            for g in gpaths:
                if rng.random() < (0.6 if k == 0 else 0.15):
                    cands.append(g)
            cpaths = list(chans)
            if rng.random() < 0.3:
                rng.shuffle(cpaths)
            in_active = {a[0] for a in active}
            for p in cpaths:
                if p in in_active:
                    if rng.random() < o.p_unlisted:
                        continue       # carried over, not mentioned
                    cands.append(p)
                elif rng.random() < (0.8 if new_list else 0.4):
                    cands.append(p)
            if rng.random() < 0.3:
                # groups before, after or between their channels
                rng.shuffle(cands)
            for p in cands:
                L = {'path': p, 'props': []}
                if len(names[p]) < 2 or ctype[p] is None:
                    L['index'] = 'none'
                else:
                    t = ctype[p]
                    r = rng.random()
                    prev = last.get(p)
                    if prev is not None and r < o.p_same:
                        L['index'] = 'same'
                    elif p in seen and r < o.p_same + o.p_none:
                        L['index'] = 'none'
                    elif p not in seen and r > 1 - o.p_none / 2:
                        L['index'] = 'none'
                    else:
                        L['index'] = 'full'
                        L['type'] = t
                        if huge and not huge_done and t not in ('str', 'bool', 'ts') and not interleaved:
                            hc = rng.choice(o.huge_classes)
                            if hc == 'k64':
                                L['count'] = rng.randint(2**16 + 1, 2**16 + 5000)
                            elif hc == 'm16':
                                L['count'] = (2**24 + rng.randint(1, 2**16)) // fmt.size_of(t) + 1
                            else:
                                L['count'] = rng.randint(int(1.05 * 2**20 / fmt.size_of(t)), int(2.3 * 2**20 / fmt.size_of(t)))
                            huge_done = True
                        elif equal_shapes:
                            L['count'] = common_count
                        elif rng.random() < o.big_count_p and not light:
                            L['count'] = rng.randint(200, 400)
                        else:
                            L['count'] = rng.randint(0, o.max_count) if rng.random() < 0.9 else 0
                if o.props and rng.random() < (0.15 if light else 0.5):
                    for _ in range(rng.randint(1, 3)):
                        L['props'].append(gen_prop(rng, ts_range=o.ts_range or 2**36))
                listed.append(L)
            # tentative active list
            for L in listed:
                p = L['path']
                if L['index'] == 'full':
                    idx = {'type': L['type'], 'count': L['count']}
                    has = True
                elif L['index'] == 'same':
                    idx = dict(last[p])
                    has = True
                else:
                    idx = dict(last[p]) if last.get(p) else None
                    has = False
                for a in active:
                    if a[0] == p:
                        a[1], a[2] = has, idx
                        break
                else:
                    active.append([p, has, idx])
                seen.add(p)
            # layout constraints
            data_objs = [a for a in active if a[1]]
            if interleaved and data_objs:
                lmap = {L['path']: L for L in listed}
                ok = True
                for a in data_objs:
                    if a[2]['type'] == 'str':
                        ok = False
                if ok:
                    for a in data_objs:
                        if a[2]['count'] != ilv_count:
                            L = lmap.get(a[0])
                            if L is None:
                                L = {'path': a[0], 'props': []}
                                listed.append(L)
                            L['index'] = 'full'
                            L['type'] = a[2]['type']
                            L['count'] = ilv_count
                            a[2] = {'type': a[2]['type'], 'count': ilv_count}
                    seg['layout'] = 'interleaved'
                else:
                    # some files set the interleaved flag on a segment holding a single string channel
                    seg['layout'] = 'interleaved' if len(data_objs) == 1 else 'contiguous'
            else:
                seg['layout'] = 'interleaved' if (interleaved and not data_objs) else 'contiguous'
            seg['listed'] = listed
            if rng.random() < o.pad_p:
                seg['pad'] = rng.randint(1, 9)
        else:
            # no metadata: previous segment's list and layout carry over
            prev = spec['segments'][-1]
            seg['layout'] = prev['layout']
            seg['new_obj_list'] = False
        data_objs = [a for a in active if a[1]]
        if not meta and len(data_objs) >= 2 and seg['layout'] in ('contiguous', 'interleaved') and rng.random() < o.flip_layout_p:
            # the data layout is a flag of each lead-in: a segment without metadata may state the other layout than the segment
            # whose object list it re-uses (a writer that takes the layout per call)
            other = 'contiguous' if seg['layout'] == 'interleaved' else 'interleaved'
            if other == 'contiguous' or (all(a[2]['type'] != 'str' for a in data_objs)
                                         and len(set(a[2]['count'] for a in data_objs)) == 1):
                seg['layout'] = other
        # string totals for full string indexes are fixed by the first chunk generated
        chunk_bytes = 0
        for a in data_objs:
            if a[2]['type'] == 'str':
                chunk_bytes += a[2].get('strbytes', 4 * a[2]['count'] + 1)
            else:
                chunk_bytes += a[2]['count'] * fmt.size_of(a[2]['type'])
        if chunk_bytes == 0:
            chunks = 0
        else:
            r = rng.random()
            chunks = 0 if r < 0.08 else (1 if r < 0.5 else rng.randint(2, o.max_chunks))
            if (light or chunk_bytes > 2**20) and chunks > 1:
                chunks = 1
            if chunk_bytes > 2**23:
                # the 16 MiB class: one such chunk per world
                if big_emitted:
                    chunks = 0
                big_emitted = big_emitted or chunks > 0
            if chunk_bytes > 2**16 and world_bytes + chunks * chunk_bytes > o.max_world_bytes:
                # a long chunk that later segments inherit ("same as before", no metadata) is not repeated without bound
                chunks = max(0, (o.max_world_bytes - world_bytes) // chunk_bytes) if chunk_bytes <= 2**23 else chunks
            world_bytes += chunks * chunk_bytes
            if run_at is not None and not meta and chunk_bytes < 4096:
                chunks = rng.choice([1, 1, 1, 1, 2, 3])      # streamed segments of unequal length
        seg['chunks'] = chunks
        short = None
        if o.short_last_p and chunks >= 1 and data_objs and rng.random() < o.short_last_p:
            cs = set(a[2]['count'] for a in data_objs)
            if len(cs) == 1 and list(cs)[0] >= 2 and all(a[2]['type'] != 'str' for a in data_objs) and chunk_bytes < 2**20:
                short = rng.randint(1, list(cs)[0] - 1)
                seg['short_last'] = short
        data = {}
        lmap = {L['path']: L for L in seg.get('listed', [])}
        for a in data_objs:
            p, _h, idx = a
            t = idx['type']
            if t == 'str':
                n = idx['count']
                if 'strbytes' not in idx:
                    first = [gen_text(rng) for _ in range(n)]
                    idx['strbytes'] = 4 * n + sum(len(s.encode('utf-8')) for s in first)
                    lmap[p]['strbytes'] = idx['strbytes']
                    vals = [first]
                else:
                    vals = []
                body = idx['strbytes'] - 4 * n
                while len(vals) < chunks:
                    # same byte total in every chunk: random partition of `body` over n strings
                    if n == 0:
                        vals.append([])
                        continue
                    cuts = sorted(rng.randint(0, body) for _ in range(n - 1))
                    parts = [b - a_ for a_, b in zip([0] + cuts, cuts + [body])]
                    vals.append([gen_text(rng, nb) for nb in parts])
                data[p] = vals[:chunks]
            else:
                data[p] = [gen_values(rng, t, idx['count'] if not (short and c_ == chunks - 1) else short, o.ts_range)
                           for c_ in range(chunks)]
        seg['data'] = data
        for a in active:
            if a[2] is not None:
                last[a[0]] = a[2]
        spec['segments'].append(seg)
    if o.unknown_offset_p and rng.random() < o.unknown_offset_p:
        lastseg = spec['segments'][-1]
        multi_str = lastseg['chunks'] > 1 and any(a[1] and a[2]['type'] == 'str' for a in active)
        if not multi_str:
            lastseg['next_offset'] = 'unknown'
    if o.declared_huge_p and rng.random() < o.declared_huge_p:
        _declare_huge(rng, spec, last, o)
    if o.scaling is not None and not huge_done:
        # (value-by-value sensor scalings over a channel of 10^5-10^6 values would only be slow, not different)
        o.scaling(rng, spec, ctype)
    return spec


def _declare_huge(rng, spec, last, o):
    """One more, final segment that states a chunk of a little over 4 GiB (an acquisition set up for a long record) of which
    only the first rows were written before logging stopped: the lead-in gives the real size ('less data than expected').
    What is read is the same as with a modest chunk size; what a reader may allocate is what the file holds, not what it
    states."""
    prev = spec['segments'][-1]
    if prev.get('next_offset') == 'unknown' or any(sg.get('layout') == 'daqmx' for sg in spec['segments']):
        return
    cands = [p for p, idx in last.items() if idx is not None and idx['type'] not in ('str', 'daqmx')]
    if not cands:
        return
    chosen = sorted(rng.sample(cands, rng.randint(1, min(3, len(cands)))))
    layout = rng.choice(['interleaved', 'contiguous'])
    if layout == 'contiguous' and len(chosen) > 1 and getattr(o, 'declared_huge_rows_only', False):
        # for files that are going to be cut: a stated-short contiguous chunk of several channels that is cut as well has
        # no defined reading (C06 is about complete files cut once), rows and single channels have
        layout = 'interleaved'
    n = rng.randint(1, 5)
    row = sum(fmt.size_of(last[p]['type']) for p in chosen)
    big = 2**32 // row + rng.randint(1, 1000)
    seg = {'endian': prev['endian'], 'layout': layout, 'pad': 0, 'meta': True,
           'new_obj_list': True, 'chunks': 1, 'short_last': n, 'declared_huge': True,
           'listed': [{'path': p, 'index': 'full', 'type': last[p]['type'], 'count': big, 'props': []} for p in chosen],
           'data': {p: [gen_values(rng, last[p]['type'], n, o.ts_range)] for p in chosen}}
    spec['segments'].append(seg)


def gen_world(rng, o, tries=50):
    """(spec, World) for a well-formed spec."""
    for i in range(tries):
        spec = gen_spec(rng, o)
        try:
            return spec, build(spec), i
        except Forbidden:
            continue
        except SpecError:
            continue
    raise RuntimeError('generator failed to produce a valid spec in %d tries' % tries)


def sibling(rng, spec, tries=6):
    """A different well-formed file that looks like `spec` from the outside: the same objects, the same number of
    segments, the same file size and the same channel lengths, but other values and - where two segments state different
    lengths for a channel - the lengths exchanged between them, i.e. the same data distributed differently over the
    segments.  Files recorded with one measurement setup are siblings of this kind; state that a reader keeps beyond one
    file object (keyed by path, size, length ...) returns the wrong one of them.  None when the world has no such variant
    (strings, DAQmx, stated short chunks)."""
    import copy
    if any(sg.get('layout') == 'daqmx' or sg.get('short_last') for sg in spec['segments']):
        return None
    for _ in range(tries):
        s2 = copy.deepcopy(spec)
        full = {}
        for k, sg in enumerate(s2['segments']):
            for L in sg.get('listed', []):
                if L.get('index') == 'full' and L.get('type') not in (None, 'str'):
                    full.setdefault(L['path'], []).append((sg['chunks'], L))
        pairs = [(a, b, ca == cb) for ls in full.values() for i, (ca, a) in enumerate(ls) for (cb, b) in ls[i + 1:]
                 if a['count'] != b['count'] and a['type'] == b['type']]
        swapped = False
        if pairs and rng.random() < 0.8:
            best = [x for x in pairs if x[2]] or pairs        # equal chunk counts keep the channel length and the file size
            a, b, _eq = rng.choice(best)
            a['count'], b['count'] = b['count'], a['count']
            swapped = True
        trial = dict(s2)
        trial['segments'] = [dict(sg, chunks=0, data={}) for sg in s2['segments']]
        try:
            wt = build(trial)
        except (SpecError, Forbidden):
            continue
        ok = True
        for sg, si in zip(s2['segments'], wt.segs):
            data = {}
            for (p, has, idx) in si.active:
                if not has:
                    continue
                if idx is None or idx['type'] in ('str', 'daqmx'):
                    ok = False
                    break
                data[p] = [gen_values(rng, idx['type'], idx['count'], 2**36) for _c in range(sg['chunks'])]
            if not ok:
                break
            sg['data'] = data
        if not ok:
            return None
        try:
            w2 = build(s2)
        except (SpecError, Forbidden):
            continue
        return s2, swapped
    return None
