"""Storage backends through which a consumer reaches a stored world.

simstream  SimFile handed in as a stream (caller-owned)
simpath    path under simfs.SIM_ROOT, resolved by SimFS through the process-wide open / os.path / os.stat seam (library-owned handles)
bytesio    io.BytesIO
realpath   real file in a per-world temp directory, given as str or pathlib.Path
realfile   real buffered file object (io.BufferedReader) on that file
gzipfile   gzip.open() on a compressed copy: a seekable reader whose fileno() belongs to another (shorter) file
rawfile    real unbuffered file object (io.FileIO, open(..., buffering=0)): read(n) may legitimately return fewer bytes
"""
import contextlib
import io
import os
import pathlib
import shutil
import tempfile

from .simfs import SimFS, SIM_ROOT
from . import lib

SIM_BACKENDS = ['simstream', 'simpath', 'bytesio', 'oldproto']
REAL_BACKENDS = ['realpath', 'realfile', 'rawfile', 'gzipfile']
ALL_BACKENDS = SIM_BACKENDS + REAL_BACKENDS


class OldProtocolFile(object):
    """A file-like object of the old school (SFTP clients, chunk readers, hand-written proxies): it reads, tells and seeks,
    but `seek()` returns nothing - the position is what `tell()` says."""
    def __init__(self, data):
        self._f = io.BytesIO(data)

    def read(self, n=-1):
        return self._f.read(n)

    def readinto(self, b):
        return self._f.readinto(b)

    def tell(self):
        return self._f.tell()

    def seek(self, pos, whence=0):
        self._f.seek(pos, whence)

    def close(self):
        self._f.close()

    @property
    def closed(self):
        return self._f.closed


class Store(object):
    """One world's storage: a SimFS plus (lazily) a real temp directory."""
    def __init__(self, short_seed=None, record=True):
        self.fs = SimFS(short_seed=short_seed, record=record)
        self.fs.clock = lib.SimClock()
        self.tmp = None
        self._open_real = []

    def realdir(self):
        if self.tmp is None:
            self.tmp = tempfile.mkdtemp(prefix='nptdms-verif-')
        return self.tmp

    def put(self, name, data, real=False):
        self.fs.put(name, data)
        if real:
            with open(os.path.join(self.realdir(), name), 'wb') as f:
                f.write(data)

    def put_linked(self, name, data, real=False):
        """The content lives under a content-addressed name without any suffix; `name` is a symbolic link to it (how DVC,
        git-annex and similar stores present files)."""
        import hashlib
        blob = 'blob-' + hashlib.md5(name.encode()).hexdigest()[:10]
        self.put(blob, data, real=real)
        self.fs.symlink(blob, name)
        if real:
            os.symlink(os.path.join(self.realdir(), blob), os.path.join(self.realdir(), name))

    def remove(self, name):
        if name in self.fs.links:
            self.fs.files.pop(self.fs.links.pop(name), None)
        self.fs.files.pop(name, None)
        if self.tmp is not None:
            try:
                os.unlink(os.path.join(self.tmp, name))
            except FileNotFoundError:
                pass

    def source(self, backend, name, as_pathlib=False):
        """The `file` argument to hand to TdmsFile.read/open for this backend."""
        if backend == 'simstream':
            return self.fs.stream(name)
        if backend == 'simpath':
            return pathlib.Path(SIM_ROOT + name) if as_pathlib else SIM_ROOT + name
        if backend == 'bytesio':
            return io.BytesIO(self.fs.get(name))
        if backend == 'oldproto':
            return OldProtocolFile(self.fs.get(name))
        path = os.path.join(self.realdir(), name)
        if not os.path.exists(path):
            with open(path, 'wb') as f:
                f.write(self.fs.get(name))
        if backend == 'realpath':
            return pathlib.Path(path) if as_pathlib else path
        if backend == 'gzipfile':
            import gzip
            gz = path + '.gz'
            with gzip.open(gz, 'wb', compresslevel=1) as f:
                f.write(self.fs.get(name))
            f = gzip.open(gz, 'rb')
            self._open_real.append(f)
            return f
        if backend in ('realfile', 'rawfile'):
            f = open(path, 'rb') if backend == 'realfile' else open(path, 'rb', buffering=0)
            self._open_real.append(f)
            return f
        raise ValueError(backend)

    def close_real(self):
        """Closes the real file objects handed out so far (they are the caller's, i.e. ours)."""
        for f in self._open_real:
            try:
                f.close()
            except Exception:
                pass
        self._open_real = []

    def cleanup(self):
        self.close_real()
        if self.tmp is not None:
            shutil.rmtree(self.tmp, ignore_errors=True)
            self.tmp = None


@contextlib.contextmanager
def store(short_seed=None, record=True):
    s = Store(short_seed=short_seed, record=record)
    try:
        with lib.installed(s.fs):
            yield s
    finally:
        s.cleanup()


def open_fds():
    return set(os.listdir('/proc/self/fd'))
