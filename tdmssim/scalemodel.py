"""NI_Scale property generation and an independent reference evaluator of the structural scale
types (Linear, Polynomial, Table, Add, Subtract, DAQmx scaler input), written from the property
statement with exact rational arithmetic.  Shares nothing with nptdms.scaling."""
import struct
from fractions import Fraction

from . import fmt

RAW = 0xFFFFFFFF
SCALABLE = ['i8', 'i16', 'i32', 'i64', 'u8', 'u16', 'u32', 'u64', 'f32', 'f64']


def f64(x):
    return struct.pack('<d', float(x))


def small_coeff(rng):
    return Fraction(rng.randint(-16, 16), rng.choice([1, 2, 4, 8]))


def gen_scales(rng, depth=None, daqmx_ids=None):
    """A list of scale descriptors; the last one is the output."""
    n = depth or rng.randint(1, 4)
    if depth is None and rng.random() < 0.04:
        n = rng.randint(10, 13)       # scale indexes with two digits (calibration on top of calibration)
    scales = []
    first = 0
    if daqmx_ids:
        # scales 0..max id are the DAQmx scalers themselves (no Scale_Type entries)
        first = max(daqmx_ids) + 1
        for i in range(first):
            scales.append({'type': 'daqmx', 'id': i} if i in daqmx_ids else {'type': 'hole'})
        n = first + rng.randint(0, 3)
    for i in range(first, n):
        def src():
            srcs = [j for j in range(i) if scales[j]['type'] != 'hole']
            if daqmx_ids:
                return rng.choice(srcs)
            if not srcs or rng.random() < 0.35:
                return RAW
            return rng.choice(srcs)
        t = rng.choice(['Linear', 'Linear', 'Polynomial', 'Table', 'Add', 'Subtract'])
        if t == 'Linear':
            s = {'type': t, 'slope': small_coeff(rng), 'intercept': small_coeff(rng), 'src': src(),
                 'explicit_src': rng.random() < 0.7}
            if s['src'] != RAW:
                s['explicit_src'] = True
        elif t == 'Polynomial':
            k = rng.choice([4, 4, 1, 2, 3, 0]) if rng.random() < 0.8 else rng.randint(0, 5)
            s = {'type': t, 'coeffs': [small_coeff(rng) / (4 ** j) for j in range(k)], 'src': src(),
                 'explicit_size': k != 4 or rng.random() < 0.5, 'explicit_src': rng.random() < 0.7}
            if s['src'] != RAW:
                s['explicit_src'] = True
        elif t == 'Table':
            k = rng.randint(2, 5)
            xs = sorted(rng.sample(range(-64, 65), k))
            if rng.random() < 0.3:
                xs = xs[::-1]                    # monotonically decreasing tables are allowed
            ys = [small_coeff(rng) for _ in range(k)]
            s = {'type': t, 'scaled': [Fraction(x, 2) for x in xs], 'pre': ys, 'src': src(),
                 'explicit_src': rng.random() < 0.7}
            if s['src'] != RAW:
                s['explicit_src'] = True
        else:
            # Add / Subtract of two integer-typed operands (raw data or DAQmx scalers) is integer arithmetic
            # with wrap-around in numpy; what "the defining formula" means there is ambiguous, so at least
            # one operand comes from a scale that produces floating point data
            floaty = [j for j in range(i) if _floaty(scales, j)]
            if not floaty:
                s = {'type': 'Linear', 'slope': small_coeff(rng), 'intercept': small_coeff(rng), 'src': src(),
                     'explicit_src': True}
            else:
                a, b = rng.choice(floaty), src()
                if rng.random() < 0.5:
                    a, b = b, a
                s = {'type': t, 'left': a, 'right': b}
        if s['type'] == 'Linear' and rng.random() < 0.15:
            s['slope'] = float(rng.choice([2, 3, -7, 100, 1000, -300]))
            s['int_slope'] = True
            if rng.random() < 0.3:
                s['intercept'] = float(rng.choice([0, 1, -5, 40000]))
                s['int_intercept'] = True
        scales.append(s)
    return scales


def _floaty(scales, j):
    t = scales[j]['type']
    if t in ('Linear', 'Polynomial', 'Table'):
        return True
    if t in ('Add', 'Subtract'):
        return any(x != RAW and _floaty(scales, x) for x in (scales[j]['left'], scales[j]['right']))
    return False


def scale_props(scales, with_count, status=None, order='asc'):
    """[[name, type, value], ...] as LabVIEW lays the properties out (order='asc'), or with the scales listed from the
    output scale downwards ('desc': tools that emit sorted or reversed property maps) - the order of properties in an
    object's metadata carries no meaning."""
    head = []
    if with_count:
        head.append(['NI_Number_Of_Scales', 'u32', len(scales)])
    if status is not None:
        head.append(['NI_Scaling_Status', 'str', status])
    blocks = []
    for i, s in enumerate(scales):
        t = s['type']
        if t in ('daqmx', 'hole'):
            continue
        p = 'NI_Scale[%d]_' % i
        out = []
        blocks.append(out)
        out.append([p + 'Scale_Type', 'str', t])
        if t == 'Linear':
            # a coefficient may be stored with an integer type (TdmsWriter does that for a Python int)
            if s.get('int_slope'):
                out.append([p + 'Linear_Slope', 'i32', int(s['slope'])])
            else:
                out.append([p + 'Linear_Slope', 'f64', f64(s['slope'])])
            if s.get('int_intercept'):
                out.append([p + 'Linear_Y_Intercept', 'i32', int(s['intercept'])])
            else:
                out.append([p + 'Linear_Y_Intercept', 'f64', f64(s['intercept'])])
            if s['explicit_src']:
                out.append([p + 'Linear_Input_Source', 'u32', s['src']])
        elif t == 'Polynomial':
            if s['explicit_size']:
                out.append([p + 'Polynomial_Coefficients_Size', 'u32', len(s['coeffs'])])
            for j, c in enumerate(s['coeffs']):
                out.append([p + 'Polynomial_Coefficients[%d]' % j, 'f64', f64(c)])
            if s['explicit_src']:
                out.append([p + 'Polynomial_Input_Source', 'u32', s['src']])
        elif t == 'Table':
            out.append([p + 'Table_Pre_Scaled_Values_Size', 'u32', len(s['pre'])])
            out.append([p + 'Table_Scaled_Values_Size', 'u32', len(s['scaled'])])
            for j, c in enumerate(s['pre']):
                out.append([p + 'Table_Pre_Scaled_Values[%d]' % j, 'f64', f64(c)])
            for j, c in enumerate(s['scaled']):
                out.append([p + 'Table_Scaled_Values[%d]' % j, 'f64', f64(c)])
            if s['explicit_src']:
                out.append([p + 'Table_Input_Source', 'u32', s['src']])
        else:
            out.append([p + '%s_Left_Operand_Input_Source' % t, 'u32', s['left']])
            out.append([p + '%s_Right_Operand_Input_Source' % t, 'u32', s['right']])
    if order == 'desc':
        blocks = blocks[::-1]
    return head + [x for b in blocks for x in b]


# ------------------------------------------------------------------------------ reference evaluator
def _num(props, name):
    t, v = props[name]
    if t in ('f64', 'f32', 'f64u', 'f32u'):
        return Fraction(struct.unpack('<d' if t in ('f64', 'f64u') else '<f', v)[0])
    return Fraction(v)


def parse_scales(props):
    """Scale descriptors from a property map {name: (type, value)}; None when this level defines no scaling
    (or is marked already scaled)."""
    import re
    if 'NI_Number_Of_Scales' in props:
        n = int(props['NI_Number_Of_Scales'][1])
    else:
        idx = [int(m.group(1)) for m in (re.match(r'NI_Scale\[(\d+)\]_Scale_Type$', k) for k in props) if m]
        if not idx:
            return None
        n = max(idx) + 1
    if n == 0:
        return None
    if 'NI_Scaling_Status' in props and props['NI_Scaling_Status'][1] == 'scaled':
        return None
    scales = []
    for i in range(n):
        p = 'NI_Scale[%d]_' % i
        if p + 'Scale_Type' not in props:
            scales.append({'type': 'daqmx', 'id': i})
            continue
        t = props[p + 'Scale_Type'][1]

        def src(name):
            return int(props[p + name][1]) if (p + name) in props else RAW
        if t == 'Linear':
            scales.append({'type': t, 'slope': _num(props, p + 'Linear_Slope'), 'intercept': _num(props, p + 'Linear_Y_Intercept'),
                           'src': src('Linear_Input_Source')})
        elif t == 'Polynomial':
            k = int(props[p + 'Polynomial_Coefficients_Size'][1]) if (p + 'Polynomial_Coefficients_Size') in props else 4
            scales.append({'type': t, 'coeffs': [_num(props, p + 'Polynomial_Coefficients[%d]' % j) for j in range(k)],
                           'src': src('Polynomial_Input_Source')})
        elif t == 'Table':
            k = int(props[p + 'Table_Scaled_Values_Size'][1])
            scales.append({'type': t, 'scaled': [_num(props, p + 'Table_Scaled_Values[%d]' % j) for j in range(k)],
                           'pre': [_num(props, p + 'Table_Pre_Scaled_Values[%d]' % j) for j in range(k)],
                           'src': src('Table_Input_Source')})
        elif t in ('Add', 'Subtract'):
            scales.append({'type': t, 'left': int(props[p + t + '_Left_Operand_Input_Source'][1]),
                           'right': int(props[p + t + '_Right_Operand_Input_Source'][1])})
        else:
            return 'unsupported'
    return scales


def evaluate(scales, raw, scalers=None, with_magnitudes=False):
    """Exact evaluation of the dataflow graph; raw = list of Fractions (or None for DAQmx), scalers =
    {id: list of Fractions}.  Returns a list of Fractions."""
    memo = {}

    def val(i):
        if i == RAW:
            if raw is None:
                raise ValueError('raw input source for DAQmx data')
            return raw
        if i in memo:
            return memo[i]
        s = scales[i]
        t = s['type']
        if t == 'daqmx':
            r = scalers[s['id']]
        elif t == 'Linear':
            r = [x * s['slope'] + s['intercept'] for x in val(s['src'])]
        elif t == 'Polynomial':
            def horner(x):
                acc = Fraction(0)
                for c in reversed(s['coeffs']):
                    acc = acc * x + c
                return acc
            r = [horner(x) for x in val(s['src'])]
        elif t == 'Table':
            xs, ys = list(s['scaled']), list(s['pre'])
            if xs[0] > xs[-1]:
                xs, ys = xs[::-1], ys[::-1]

            def interp(x):
                if x <= xs[0]:
                    return ys[0]
                if x >= xs[-1]:
                    return ys[-1]
                for k in range(len(xs) - 1):
                    if xs[k] <= x <= xs[k + 1]:
                        return ys[k] + (ys[k + 1] - ys[k]) * (x - xs[k]) / (xs[k + 1] - xs[k])
            r = [interp(x) for x in val(s['src'])]
        elif t == 'Add':
            a, b = val(s['left']), val(s['right'])
            r = [x + y for x, y in zip(a, b)]
        elif t == 'Subtract':
            a, b = val(s['left']), val(s['right'])
            r = [y - x for x, y in zip(a, b)]          # right - left, as the library documents
        else:
            raise ValueError(t)
        memo[i] = r
        return r
    out = val(len(scales) - 1)
    if with_magnitudes:
        # per element, the largest magnitude any intermediate value takes: floating-point evaluation is only
        # accurate relative to that (catastrophic cancellation, e.g. Add(p, Subtract(p, x)) with |p| >> |x|)
        n = len(out)
        mags = [abs(x) for x in out]
        for r in memo.values():
            if len(r) == n:
                mags = [max(m, abs(x)) for m, x in zip(mags, r)]
        return out, mags
    return out


def channel_scales(w, path):
    """The scale list in force for a channel: channel, else group, else file.  None = unscaled."""
    g = w.names[path][0]
    for p in (path, fmt.quote_path(g), '/'):
        props = w.props.get(p)
        if props:
            s = parse_scales(props)
            if s is not None:
                return s          # a list of scale descriptors, or 'unsupported' (sensor scales: no reference formula here)
    return None


def raw_fractions(ch, scaler=None):
    import numpy as np
    if ch.type == 'daqmx':
        t, vals = ch.scalers[scaler]
    else:
        t, vals = ch.type, ch.values
    arr = np.frombuffer(bytes(vals), dtype=fmt.TYPES[t][2])
    if arr.dtype.kind == 'f':
        return [Fraction(float(x)) for x in arr]
    return [Fraction(int(x)) for x in arr]


# ------------------------------------------------------------------------------ sensor scales (properties only)
def sensor_scale_props(rng, index=0, src=RAW, kind=None):
    """Properties of one RTD / Thermocouple / Thermistor / Strain scale with benign parameters (used by C14,
    which judges dtype and length only; the physics is C17/C18's business)."""
    kind = kind or rng.choice(['RTD', 'Thermocouple', 'Thermistor', 'Strain'])
    p = 'NI_Scale[%d]_' % index
    out = [[p + 'Scale_Type', 'str', kind]]
    if kind == 'RTD':
        out += [[p + 'RTD_Current_Excitation', 'f64', f64(rng.choice([1.0, 0.5]))],
                [p + 'RTD_R0_Nominal_Resistance', 'f64', f64(100.0)],
                [p + 'RTD_A', 'f64', f64(0.0039083)], [p + 'RTD_B', 'f64', f64(-5.775e-07)], [p + 'RTD_C', 'f64', f64(-4.183e-12)],
                [p + 'RTD_Lead_Wire_Resistance', 'f64', f64(0.0)],
                [p + 'RTD_Resistance_Configuration', 'u32', rng.choice([2, 3, 4])],
                [p + 'RTD_Input_Source', 'u32', src]]
    elif kind == 'Thermocouple':
        out += [[p + 'Thermocouple_Thermocouple_Type', 'u32', rng.choice([10047, 10055, 10072, 10073, 10077, 10082, 10085, 10086])],
                [p + 'Thermocouple_Scaling_Direction', 'u32', rng.choice([0, 1])],
                [p + 'Thermocouple_Input_Source', 'u32', src]]
    elif kind == 'Thermistor':
        out += [[p + 'Thermistor_Excitation_Type', 'u32', rng.choice([10134, 10322])],
                [p + 'Thermistor_Excitation_Value', 'f64', f64(rng.choice([0.001, 2.5]))],
                [p + 'Thermistor_Resistance_Configuration', 'u32', rng.choice([2, 3, 4])],
                [p + 'Thermistor_R1_Reference_Resistance', 'f64', f64(5000.0)],
                [p + 'Thermistor_Lead_Wire_Resistance', 'f64', f64(0.0)],
                [p + 'Thermistor_A', 'f64', f64(0.0012873851)], [p + 'Thermistor_B', 'f64', f64(0.00023575235)],
                [p + 'Thermistor_C', 'f64', f64(9.497806e-08)],
                [p + 'Thermistor_Temperature_Offset', 'f64', f64(273.15)],
                [p + 'Thermistor_Input_Source', 'u32', src]]
    else:
        out += [[p + 'Strain_Configuration', 'u32', rng.choice([10183, 10184, 10185, 10188, 10189, 10271, 10272])],
                [p + 'Strain_Poisson_Ratio', 'f64', f64(0.3)], [p + 'Strain_Gage_Resistance', 'f64', f64(350.0)],
                [p + 'Strain_Lead_Wire_Resistance', 'f64', f64(0.0)],
                [p + 'Strain_Initial_Bridge_Voltage', 'f64', f64(rng.choice([0.0, 0.5]))],
                [p + 'Strain_Gage_Factor', 'f64', f64(2.1)],
                [p + 'Strain_Bridge_Shunt_Calibration_Gain_Adjustment', 'f64', f64(1.0)],
                [p + 'Strain_Voltage_Excitation', 'f64', f64(2.5)],
                [p + 'Strain_Input_Source', 'u32', src]]
    return kind, out
