#!/venv/bin/python
"""tools/mutate.py [--sample N] [--seed S] [--out FILE] [--files a.py,b.py]

Automated breadth test of the checks' sensitivity: small syntactic mutants of /repo/nptdms (comparison
and arithmetic operator swaps, off-by-one constants, and/or swaps, negated conditions, dropped statements)
are applied one at a time to a scratch copy of /repo (outside /repo and /verif, removed afterwards).
A mutant that still passes the pinned test suite ("survivor") is handed to the quick checks that watch the
mutated file; the report lists, per survivor, whether some check raised VIOLATION.  Survivors nobody catches
are either equivalent mutants or gaps - they are written out for manual triage, nothing is concluded
automatically from them."""
import argparse
import ast
import json
import os
import random
import re
import shutil
import subprocess
import sys
import tempfile
import time

HERE = os.path.dirname(os.path.dirname(os.path.abspath(__file__)))
FILE_CHECKS = {
    'reader.py': ['C04', 'C01', 'C06', 'C05', 'C09', 'C19', 'C02', 'C20'],
    'tdms_segment.py': ['C01', 'C04', 'C02', 'C06', 'C05', 'C15', 'C19', 'C03'],
    'base_segment.py': ['C01', 'C06', 'C11', 'C03'],
    'tdms.py': ['C04', 'C03', 'C05', 'C14', 'C19', 'C20', 'C13', 'C06'],
    'writer.py': ['C07', 'C08', 'C10', 'C20'],
    'daqmx.py': ['C11', 'C15', 'C06', 'C13'],
    'types.py': ['C01', 'C15', 'C07', 'C10'],
    'channel_data.py': ['C03', 'C04', 'C14', 'C10', 'C01'],
    'scaling.py': ['C13', 'C14', 'C03'],
    'timestamp.py': ['C03', 'C10', 'C07', 'C01'],
    'common.py': ['C01', 'C07', 'C10', 'C08'],
}
CMP = {'<': '<=', '<=': '<', '>': '>=', '>=': '>', '==': '!=', '!=': '=='}


def candidates(path, rel):
    src = open(path).read()
    lines = src.split('\n')
    tree = ast.parse(src)
    skip_ranges = []
    for node in ast.walk(tree):
        # docstrings, logging calls, __repr__ and error messages are not worth mutating
        if isinstance(node, (ast.FunctionDef,)) and node.name in ('__repr__', '__str__', '_get_attr_repr'):
            skip_ranges.append((node.lineno, node.end_lineno))
        if isinstance(node, ast.Expr) and isinstance(node.value, ast.Constant) and isinstance(node.value.value, str):
            skip_ranges.append((node.lineno, node.end_lineno))
        if isinstance(node, ast.Call) and isinstance(node.func, ast.Attribute) and isinstance(node.func.value, ast.Name) \
                and node.func.value.id == 'log':
            skip_ranges.append((node.lineno, node.end_lineno))
        if isinstance(node, ast.Raise):
            skip_ranges.append((node.lineno, node.end_lineno))
    if rel == 'scaling.py':
        # sensor scalings are C17 / C18's business (not applicable here)
        for node in ast.walk(tree):
            if isinstance(node, ast.ClassDef) and node.name in ('RtdScaling', 'StrainScaling', 'ThermistorScaling',
                                                                'ThermocoupleScaling'):
                skip_ranges.append((node.lineno, node.end_lineno))
            if isinstance(node, ast.FunctionDef) and node.name == '_adjust_for_lead_resistance':
                skip_ranges.append((node.lineno, node.end_lineno))
    if rel == 'tdms.py':
        for node in ast.walk(tree):
            if isinstance(node, ast.FunctionDef) and node.name in ('time_track', 'as_dataframe', 'as_hdf', '_ipython_key_completions_'):
                skip_ranges.append((node.lineno, node.end_lineno))

    def skipped(ln):
        return any(a <= ln <= b for a, b in skip_ranges)
    out = []
    for i, line in enumerate(lines, 1):
        s = line.strip()
        if not s or s.startswith('#') or s.startswith('import') or s.startswith('from ') or skipped(i):
            continue
        code = line.split('#')[0]
        for m in re.finditer(r'(?<![<>=!])(<=|>=|==|!=|<|>)(?![<>=])', code):
            op = m.group(1)
            out.append((i, 'cmp %s->%s' % (op, CMP[op]), line[:m.start(1)] + CMP[op] + line[m.end(1):]))
        for m in re.finditer(r'(?<![\w.\]\)])(\d+)(?![\w.])', code):
            v = int(m.group(1))
            if v > 64 and v not in (100,):
                continue
            for nv in {v + 1, max(0, v - 1)} - {v}:
                out.append((i, 'const %d->%d' % (v, nv), line[:m.start(1)] + str(nv) + line[m.end(1):]))
        for m in re.finditer(r' (\+|-) ', code):
            op = m.group(1)
            out.append((i, 'arith %s->%s' % (op, '-' if op == '+' else '+'), line[:m.start(1)] + ('-' if op == '+' else '+') + line[m.end(1):]))
        for m in re.finditer(r' (//|\*) ', code):
            op = m.group(1)
            rep = '*' if op == '//' else '//'
            out.append((i, 'arith %s->%s' % (op, rep), line[:m.start(1)] + rep + line[m.end(1):]))
        for m in re.finditer(r'\b(and|or)\b', code):
            op = m.group(1)
            out.append((i, 'bool %s->%s' % (op, 'or' if op == 'and' else 'and'), line[:m.start(1)] + ('or' if op == 'and' else 'and') + line[m.end(1):]))
        m = re.match(r'^(\s*)(if|elif|while) (.+):\s*$', code)
        if m and ' not ' not in ' ' + m.group(3) + ' ':
            out.append((i, 'negate condition', '%s%s not (%s):' % (m.group(1), m.group(2), m.group(3))))
        m = re.match(r'^(\s*)not (.+)$', code)
        if re.match(r'^\s*(break|continue)\s*$', code):
            out.append((i, 'drop ' + s, re.sub(r'(break|continue)', 'pass', line)))
        if re.match(r'^\s*[\w.\[\]\'"]+ (\+=|-=) .+$', code) or re.match(r'^\s*(file|f|self\._file)\.seek\(.+\)\s*$', code):
            indent = re.match(r'^(\s*)', line).group(1)
            out.append((i, 'drop statement', indent + 'pass'))
    return lines, out


def scratch():
    d = tempfile.mkdtemp(prefix='nptdms-mutate-')
    subprocess.check_call('git -C /repo ls-files -z | (cd /repo && xargs -0 cp --parents -t %s)' % d, shell=True)
    return d


def main():
    ap = argparse.ArgumentParser()
    ap.add_argument('--sample', type=int, default=200)
    ap.add_argument('--seed', type=int, default=1)
    ap.add_argument('--out', default=os.path.join(HERE, 'mutation_report.json'))
    ap.add_argument('--files', default=','.join(FILE_CHECKS))
    ap.add_argument('--budget', default='20')
    ap.add_argument('--max-checks', type=int, default=5)
    a = ap.parse_args()
    rng = random.Random(a.seed)
    allc = []
    for rel in a.files.split(','):
        lines, cands = candidates(os.path.join('/repo/nptdms', rel), rel)
        for c in cands:
            allc.append((rel,) + c)
    rng.shuffle(allc)
    sample = allc[:a.sample]
    print('%d candidate mutants, sampling %d' % (len(allc), len(sample)))
    report = {'candidates': len(allc), 'sampled': len(sample), 'results': []}
    d = scratch()
    t0 = time.time()
    try:
        for n, (rel, lineno, kind, newline) in enumerate(sample):
            path = os.path.join(d, 'nptdms', rel)
            orig = open(path).read()
            lines = orig.split('\n')
            old = lines[lineno - 1]
            lines[lineno - 1] = newline
            open(path, 'w').write('\n'.join(lines))
            rec = {'file': rel, 'line': lineno, 'kind': kind, 'old': old.strip(), 'new': newline.strip()}
            try:
                c = subprocess.run(['/venv/bin/python', '-m', 'py_compile', path], capture_output=True)
                if c.returncode != 0:
                    rec['status'] = 'does-not-compile'
                    continue
                s = subprocess.run(['/venv/bin/python', '-m', 'pytest', '-q', '-x', '-p', 'no:cacheprovider', '-n', '8',
                                    '--timeout', '120'], cwd=d, capture_output=True, text=True,
                                   env=dict(os.environ, PYTHONDONTWRITEBYTECODE='1'))
                if s.returncode != 0:
                    rec['status'] = 'killed-by-suite'
                    continue
                rec['status'] = 'survivor'
                rec['caught_by'] = None
                tried = []
                for prop in FILE_CHECKS[rel][:a.max_checks]:
                    c = subprocess.run([os.path.join(HERE, 'check'), prop, '--tier', 'quick', '--no-evidence', '--budget', a.budget],
                                       capture_output=True, text=True, env=dict(os.environ, VERIF_REPO=d, VERIF_SHRINK_S='3'))
                    tried.append(prop)
                    if c.returncode == 1 and 'VIOLATION property=%s' % prop in c.stdout:
                        tag = re.search(r'violation: (\S+)', c.stdout)
                        rec['caught_by'] = prop
                        rec['tag'] = tag.group(1) if tag else None
                        break
                    if c.returncode == 2:
                        rec.setdefault('harness_errors', []).append(prop)
                rec['tried'] = tried
            finally:
                open(path, 'w').write(orig)
                report['results'].append(rec)
                st = rec.get('status')
                print('[%3d/%d %4.0fs] %-16s %-18s %s:%d %s%s' % (
                    n + 1, len(sample), time.time() - t0, st, kind, rel, lineno,
                    ('caught by %s %s' % (rec.get('caught_by'), rec.get('tag'))) if rec.get('caught_by') else
                    ('NOT CAUGHT (%s)' % ','.join(rec.get('tried', []))) if st == 'survivor' else '', ''), flush=True)
                with open(a.out, 'w') as f:
                    json.dump(report, f, indent=1)
    finally:
        shutil.rmtree(d, ignore_errors=True)
    res = report['results']
    surv = [r for r in res if r['status'] == 'survivor']
    caught = [r for r in surv if r.get('caught_by')]
    print('sampled %d: %d killed by the suite, %d do not compile, %d survive the suite; of the survivors %d are caught by a '
          'check, %d are not (equivalent mutants or gaps: see %s)' % (
              len(res), sum(r['status'] == 'killed-by-suite' for r in res), sum(r['status'] == 'does-not-compile' for r in res),
              len(surv), len(caught), len(surv) - len(caught), a.out))


if __name__ == '__main__':
    main()
