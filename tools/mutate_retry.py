#!/venv/bin/python
"""tools/mutate_retry.py [report.json]  - re-run every survivor that no check caught against ALL quick checks
(longer budget), to separate 'the first few checks tried were the wrong ones' from real misses."""
import json, os, re, shutil, subprocess, sys, tempfile
HERE = os.path.dirname(os.path.dirname(os.path.abspath(__file__)))
path = sys.argv[1] if len(sys.argv) > 1 else os.path.join(HERE, 'mutation_report.json')
rep = json.load(open(path))
ALL = ['C01', 'C02', 'C03', 'C04', 'C05', 'C06', 'C07', 'C08', 'C09', 'C10', 'C11', 'C13', 'C14', 'C15', 'C19', 'C20']
d = tempfile.mkdtemp(prefix='nptdms-mutate-')
subprocess.check_call('git -C /repo ls-files -z | (cd /repo && xargs -0 cp --parents -t %s)' % d, shell=True)
try:
    for r in rep['results']:
        if r.get('status') != 'survivor' or r.get('caught_by') or r.get('retried'):
            continue
        p = os.path.join(d, 'nptdms', r['file'])
        orig = open(p).read()
        lines = orig.split('\n')
        if lines[r['line'] - 1].strip() != r['old']:
            print('source moved, skipping', r['file'], r['line'])
            continue
        indent = re.match(r'^(\s*)', lines[r['line'] - 1]).group(1)
        lines[r['line'] - 1] = indent + r['new']
        open(p, 'w').write('\n'.join(lines))
        try:
            for prop in [c for c in ALL if c not in r.get('tried', [])]:
                c = subprocess.run([os.path.join(HERE, 'check'), prop, '--tier', 'quick', '--no-evidence', '--budget', '30'],
                                   capture_output=True, text=True, env=dict(os.environ, VERIF_REPO=d, VERIF_SHRINK_S='3'))
                r.setdefault('tried', []).append(prop)
                if c.returncode == 1 and 'VIOLATION property=%s' % prop in c.stdout:
                    tag = re.search(r'violation: (\S+)', c.stdout)
                    r['caught_by'] = prop
                    r['tag'] = tag.group(1) if tag else None
                    break
            r['retried'] = True
            print(r['file'], r['line'], r['kind'], '->', r.get('caught_by') or 'NOT CAUGHT by any check', flush=True)
        finally:
            open(p, 'w').write(orig)
            json.dump(rep, open(path, 'w'), indent=1)
finally:
    shutil.rmtree(d, ignore_errors=True)
