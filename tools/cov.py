#!/venv/bin/python
"""tools/cov.py [N] [props...] - branch coverage of /repo/nptdms reached by N worlds of each profile (single process)."""
import os, sys, random
os.environ.setdefault('PYTHONHASHSEED', '0')
sys.path.insert(0, '/verif')
import coverage
n = int(sys.argv[1]) if len(sys.argv) > 1 else 300
props = [p.upper() for p in sys.argv[2:]] or ['C01','C02','C03','C04','C05','C06','C07','C08','C09','C10','C11','C13','C14','C15','C19','C20']
cov = coverage.Coverage(branch=True, include=['/repo/nptdms/*.py'], omit=['/repo/nptdms/test/*', '/repo/nptdms/export/*', '/repo/nptdms/tdmsinfo.py'],
                        data_file='/tmp/verif-cov.data')
cov.start()
from tdmssim.core import world_seed
from tdmssim.runner import load_profile
for p in props:
    prof = load_profile(p)
    k = n if p not in ('C06', 'C11', 'C20') else max(3, n // 30)
    for run in range(k):
        rng = random.Random(world_seed(5, p, 'quick', run))
        case = prof.generate(rng, 'quick')
        prof.execute(case)
cov.stop()
cov.save()
cov.report(show_missing=True, skip_covered=False)
