#!/venv/bin/python
"""Regenerates /verif/MANIFEST.json from the table below (keeps the file consistent and valid)."""
import json
import os

HERE = os.path.dirname(os.path.dirname(os.path.abspath(__file__)))

TRUSTED = ('Trusted base: the independent stub encoder + reference model in tdmssim/world.py (my reading of the NI '
           'TDMS format), SimFS semantics (tdmssim/simfs.py), numpy, CPython. Sampling, not proof: a clean batch '
           'is evidence.')

CHECKS = {
    'C01': dict(
        level='exploration', ref='DESIGN.md §4 C01',
        technique='deterministic simulation (fault-free configuration): seeded producer stub + reference model, '
                  'seeded stream-delivery schedule (short readinto) and backend',
        text='Seeded search over worlds (file shapes x header encodings x 17 types x layouts x chunking x byte order) '
             'read through a simulated stream whose readinto delivery schedule is seeded; every object, property, '
             'length, dtype and value is compared bit-exactly with an independent reference model. Exploration is '
             'the right level: the property is universal over inputs and the only nondeterminism on the read path is '
             'how the stream delivers bytes, which the simulator owns.'),
    'C04': dict(
        level='exploration', ref='DESIGN.md §4 C04',
        technique='deterministic simulation (fault-free + truncated-final-chunk variant): seeded worlds, explicit '
                  'window/slice/index request lists on a lazy and an eager handle, numpy indexing on the model array; '
                  '10% of worlds repeat requests from 2-3 deterministically interleaved threads on the eager handle',
        text='Per seeded world an explicit list of read_data windows (all windows of channels <=24 values in the '
             'thorough tier), slices and integer indices is executed on a lazily opened and an eagerly read handle '
             'and compared with numpy indexing on the full array from the reference model (or, for a file cut inside '
             'its last segment, on what [:] returns). Per-world window enumeration is exhaustive for small channels; '
             'worlds are sampled.'),
    'C02': dict(
        level='exploration', ref='DESIGN.md §4 C02',
        technique='deterministic simulation of a producer history: segments appended one at a time, tailing reader '
                  '(eager + lazy) after every append vs reference model and vs the explicit re-encoding; injected '
                  'forbidden encodings',
        text='Seeded segment histories over the header-encoding choices {full, matches-previous, no-data, unlisted} x '
             'kTocNewObjList x kTocMetaData; after every appended segment the file so far is read eagerly and lazily '
             'and compared with the model, with the read of the fully explicit re-encoding and (monotonicity) with '
             'the previous prefix; 15% of worlds carry one forbidden encoding and must be rejected.'),
    'C03': dict(
        level='exploration', ref='DESIGN.md §4 C03',
        technique='deterministic simulation: several handles with seeded configurations ({read,open} x backend x '
                  'memmap x raw_timestamps) on one stored file, all access paths cross-checked and checked against '
                  'the model',
        text='Per seeded world 3-4 handles are opened on the same stored file through different storage backends and '
             'options; every documented access path of every channel is executed on each and all results must agree '
             'with each other (exactly, per timestamp representation) and with the reference model; chunk offsets '
             'must equal the running count.'),
    'C05': dict(
        level='exploration', ref='DESIGN.md §4 C05',
        technique='deterministic simulation with a seeded scheduler: library generators are cooperative tasks, the '
                  'scheduler picks which advances next, interleaved with direct reads on one handle; refinement '
                  'against run-alone executions and the stateless model; bounded-progress drain; transient EIO / caller '
                  'interruption on the handle; a second, sibling file open at the same time',
        text='The scheduler interleaves up to 8 live generators (file-level and channel-level chunk streams, value '
             'iterators) with index / slice / window reads on one lazily opened handle; every yielded item must equal '
             'the item the same generator yields when run alone on a fresh handle, every direct read must equal the '
             'stateless model, and once only one generator is advanced it must finish within remaining+1 steps. In a fifth of '
             'the worlds one read of the handle meets a transient EIO or a KeyboardInterrupt (that read may fail, later ones '
             'must be right); in 30% a second file - same objects, sizes and lengths, data distributed differently - is open '
             'and read in between; 10% of the files are cut short inside their last segment.'),
    'C06': dict(
        level='fault_enumeration', ref='DESIGN.md §4 C06',
        technique='deterministic simulation with crash injection: the producer is killed at EVERY byte offset of '
                  'each seeded world (longer files: every structural offset and a seeded sample of raw-data offsets); '
                  'truncated file read eagerly + lazily (SimFile stream, BytesIO, real path, buffered and unbuffered '
                  'real file objects) against the prefix oracle from the reference model; stub-made and TdmsWriter-made files',
        text='Crash points are enumerated exhaustively per world (every cut 4..len), worlds are seeded. Per cut: no '
             'exception, values are a prefix of the complete file, at least the values of segments wholly before the '
             'cut, len() equals the count returned, lazy == eager, incomplete_final_segment exactly when the first byte '
             'lost is a raw-data byte of a segment (with the length-unknown marker the boundary itself is don\'t-care). A '
             'read loop that keeps asking a stream at end of file is reported as no-progress (liveness in I/O steps).'),
    'C11': dict(
        level='exploration', ref='DESIGN.md §4 C11',
        technique='deterministic simulation: DAQmx stub producer with random buffers, seeded delivery schedule, lazy '
                  'window histories and crash at every byte of the last segment; expected columns from the model\'s '
                  'own (buffer, row, offset) arithmetic',
        text='Seeded DAQmx worlds (channels x scalers x buffers of differing widths and lengths x chunks x byte '
             'orders); every scaler column is compared with the model; unscaled/scaled access paths, lazy windows and '
             'chunk streams must equal slices of it; the last segment is cut at every byte and must yield only '
             'complete rows, a prefix, with lazy == eager.'),
    'C15': dict(
        level='exploration', ref='DESIGN.md §4 C15',
        technique='deterministic simulation (fault-free, metamorphic): each seeded world encoded little-endian, '
                  'big-endian and with per-segment byte order by the stub; reads (incl. round-robin interleaved chunk streams '
                  'of all channels) compared with each other and the model',
        text='The same logical content (incl. DAQmx scaler records and buffers, timestamps, strings, all property '
             'types, header inheritance across byte-order changes) is encoded three ways; eager and lazy reads of '
             'all three must be identical and equal to the model.'),
    'C19': dict(
        level='exploration', ref='DESIGN.md §4 C19',
        technique='deterministic simulation: I/O-trace monitor on the simulated disk; every read()/readinto() of each '
                  'op in a seeded history is checked against the byte set allowed by the model\'s provenance table; repeated '
                  'index reads partly from another (sequential) thread; 10% truncated files',
        text='A recording SimFile is handed to TdmsFile.open; for seeded histories of windows, slices and integer '
             'indices every byte fetched must lie in the requested channel\'s extents (contiguous) or the chunk '
             'extents (interleaved/DAQmx) of the chunks overlapping the request, plus 4 tag bytes per segment in '
             'range; an index into the chunk just served must issue no read at all.'),
    'C07': dict(
        level='exploration', ref='DESIGN.md §4 C07',
        technique='deterministic simulation: the real TdmsWriter driven by seeded write_segment programs on simulated / '
                  'real storage with scheduler-chosen session ends and append sessions, and two writers alive at once as '
                  'cooperative tasks under a seeded schedule; reader output vs the concatenation / last-write-wins '
                  'model after every session',
        text='Seeded programs over every supported array dtype / list / string / datetime form and property value type '
             '(integer width boundaries, NaN payloads, multi-byte text, nasty names), split into sessions by the '
             'scheduler, written to SimFS paths, SimFile streams, BytesIO or real files; after each session the file is '
             'read back and compared with the model of accepted calls; on-disk property types come from the '
             'independent parser; inputs plainly inside the stated domain must be accepted. The recorded finding '
             '(microsecond truncation) is masked only for the exact values it explains.'),
    'C08': dict(
        level='exploration', ref='DESIGN.md §4 C08',
        technique='deterministic simulation: write trace of the real TdmsWriter on the simulated disk, checked after '
                  'every write_segment by an independent strict structural parser (invariant while the run proceeds)',
        text='After every write_segment of a seeded program the bytes appended by that call must parse as exactly one '
             'self-consistent segment (offsets, every inner length field, raw size), root declared first, groups no '
             'later than their channels, appends only, rejected calls leave no bytes; the index file must equal the '
             'data file minus raw data with TDSm->TDSh, byte for byte.'),
    'C09': dict(
        level='exploration', ref='DESIGN.md §4 C09',
        technique='deterministic simulation of two-file storage: index discovery through the os.path.isfile seam, index '
                  'absent / stub-made / writer-made, crash of the data file under a complete index, directory entries '
                  'renamed or replaced after TdmsFile.open (handles are bound to storage, not names); with-index vs '
                  'without-index runs compared',
        text='Seeded two-file worlds on SimFS and real paths; read / open (+windows, chunk streams) / read_metadata '
             'with and without the index must give identical objects, properties, lengths, dtypes and data, also '
             'when the data file is cut inside its last segment; the index alone (path and TDSh stream) must give the '
             'same metadata and refuse every data read.'),
    'C10': dict(
        level='exploration', ref='DESIGN.md §4 C10',
        technique='deterministic simulation (fault-free): reader->writer composition through simulated storage; source '
                  'and destination read with raw timestamps and compared; destination parsed by the strict parser; '
                  'descriptor table checked; 15% of the sources are files cut short by a crash; stub-made sources are also '
                  'compared with the reference model; in-place defragment (destination path = source path)',
        text='Seeded non-DAQmx sources (stub- and writer-made; fragmented, typeless / empty / property-only channels, '
             'strings, full-range raw timestamps, NI_Scale properties) are defragmented to paths and streams with and '
             'without index; groups, channels, properties, lengths, bit-identical raw values, dtype (when len >= 1) and '
             'scaled data must be preserved and the copy must be structurally valid.'),
    'C13': dict(
        level='exploration', ref='DESIGN.md §4 C13',
        technique='deterministic simulation: op histories on eager and lazy handles over worlds with seeded NI_Scale '
                  'graphs; per-operation invariants (purity, elementwise, lazy == eager), an exact rational '
                  'reference evaluator, and 2-3 concurrent readers of the eagerly read file under a deterministic '
                  'thread interleaver (baton-passing threads pre-empted at line events inside nptdms)',
        text='Seeded scale graphs (Linear / Polynomial / Table / Add / Subtract / DAQmx scaler inputs, arbitrary wiring, '
             'channel / group / root placement, NI_Scaling_Status shadowing); scaled full reads are compared with an '
             'independent exact evaluator (relative tolerance 1e-10, 2e-5 for float32 raw data); windows, indices and '
             'chunk streams must equal slices of the scaled data on both handles; raw data must be byte-identical '
             'before and after.'),
    'C14': dict(
        level='exploration', ref='DESIGN.md §4 C14',
        technique='deterministic simulation: per-operation monitor over seeded read histories on eager and lazy handles '
                  '(every raw type x no scaling / structural scale graphs / sensor scales / DAQmx)',
        text='Every successful read in every world - full, window, slice, integer index, iteration element, channel- and '
             'file-level chunk, empty window, zero-length channel - is checked: it is a numpy array whose dtype equals '
             'channel.dtype (byte-order flag don\'t-care), scalars have the matching scalar type, full reads have '
             'len(channel) elements.'),
    'C20': dict(
        level='fault_enumeration', ref='DESIGN.md §4 C20',
        technique='deterministic simulation with fault injection on the simulated descriptor table: every open() call '
                  'failing, EIO and caller interruption at every read event, ENOSPC at every write event, every structural '
                  'field garbled, foreign index, close() at every position of an op history with suspended generators, '
                  'overlapping lifetimes of two TdmsFile objects, one TdmsWriter object entered three times; /proc/self/fd '
                  'sample on real files',
        text='Per seeded world and API scenario (read, read_metadata, open+ops+close, with-open, defragment, TdmsWriter '
             'with-block; path and stream; with and without index) the fault points are enumerated exhaustively: after '
             'the call returns or raises no library-owned handle may be open and no caller-owned stream closed; close() '
             'twice is a no-op; after close every read raises or returns the model\'s value; closing one of two open files '
             'leaves the other usable and its descriptors open.'),
}

NOT_APPLICABLE = [
    {"property_id": "C12", "reason": "pure integer/float arithmetic on single timestamp values and a pure function of three properties (time_track); no I/O, state, schedule or fault for a simulator to decide; settled by exhaustive enumeration, which is not this technique"},
    {"property_id": "C16", "reason": "pure string codec (ObjectPath <-> path string); decided by exhaustive enumeration over a tiny alphabet, not by simulation; nothing to schedule or fault"},
    {"property_id": "C17", "reason": "pure numeric functions of (parameters, array) in scaling.py; no I/O, state, schedule or fault"},
    {"property_id": "C18", "reason": "pure numeric functions on a dense grid (thermocouples.py); no I/O, state, schedule or fault"},
]

NOT_YET = {
}


def main():
    checks = []
    for pid in sorted(CHECKS):
        c = CHECKS[pid]
        checks.append({
            'property_id': pid,
            'quick_cmd': './check %s --tier quick' % pid,
            'thorough_cmd': './check %s --tier thorough' % pid,
            'evidence_file': '/verif/evidence/%s.json' % pid,
            'replay_cmd_template': './check %s --replay {path}' % pid,
            'engine': 'tdmssim',
            'level_claimed': {'category': c['level'], 'text': c['text'], 'design_ref': c['ref']},
            'level_note': c.get('note', TRUSTED),
            'technique': c['technique'],
        })
    na = list(NOT_APPLICABLE)
    allp = [json.loads(l)['id'] for l in open(os.path.join(HERE, 'properties.jsonl'))]
    for pid in allp:
        if pid not in CHECKS and pid not in [x['property_id'] for x in na]:
            na.append({'property_id': pid, 'reason': NOT_YET.get(
                pid, 'not claimed yet: the check for this property is still being built (see DESIGN.md §4); '
                     'it is applicable and will be registered when its profile exists')})
    m = {
        'version': 1,
        'setup_cmd': './check selftest setup',
        'hooks': {
            'guard': 'NPTDMS_VERIF',
            'enable': 'no hooks exist in /repo: every seam (stream arguments, the process-wide open / os.path / os.stat dispatch on simulated file names, one optional function default of nptdms.reader, '
                      'generators as cooperative tasks) is reached from outside; the checks import '
                      'nptdms from the working tree of VERIF_REPO (default /repo), pure Python, nothing to build',
            'baseline_off_cmd': 'cd /repo && /venv/bin/python -m pytest -ra -q -p no:cacheprovider --timeout=900 '
                                '--continue-on-collection-errors',
            'source_commits': [],
            'add_only': True,
        },
        'engines': [{
            'name': 'tdmssim', 'path': '/verif/tdmssim',
            'serves_properties': sorted(CHECKS),
            'kind_free_text': 'deterministic simulator for a single-threaded file library: simulated disk (SimFS) with '
                              'event log, descriptor table, symbolic links, short-delivery / EIO / crash / corruption / failing-open / '
                              'address-space-limit injection, deterministic thread interleaver; '
                              'independent TDMS encoder + reference model; seeded world generator and scheduler; '
                              'ddmin minimiser; self-contained replay files',
        }],
        'checks': checks,
        'not_applicable': na,
        'notes': 'Deterministic simulation with fault injection; see DESIGN.md. Every check also fixes the local time zone from the seed, runs a short secondary pass under python -O -bb, and runs 6% of its small worlds under an address space limit (RLIMIT_AS = size + 512 MiB). ./check <id> --tier quick|thorough; '
                 'VERIF_SEED, VERIF_BUDGET_S, VERIF_WORKERS, VERIF_REPO are honoured. Exit 0 held / 1 VIOLATION / '
                 '2 HARNESS-ERROR.',
    }
    with open(os.path.join(HERE, 'MANIFEST.json'), 'w') as f:
        json.dump(m, f, indent=1)
    print('wrote MANIFEST.json with %d checks, %d not claimed' % (len(checks), len(na)))


if __name__ == '__main__':
    main()
