#!/venv/bin/python
"""Regenerates /verif/MANIFEST.json from the table below (keeps the file consistent and valid)."""
import json
import os

HERE = os.path.dirname(os.path.dirname(os.path.abspath(__file__)))

TRUSTED = ('Trusted base: the independent stub encoder + reference model in tdmssim/world.py (my reading of the NI '
           'TDMS format), SimFS semantics (tdmssim/simfs.py), numpy, CPython. Sampling, not proof: a clean batch '
           'is evidence.')

CHECKS = {
    'C01': dict(
        level='exploration', ref='DESIGN.md §4 C01',
        technique='deterministic simulation (fault-free configuration): seeded producer stub + reference model, '
                  'seeded stream-delivery schedule (short readinto) and backend',
        text='Seeded search over worlds (file shapes x header encodings x 17 types x layouts x chunking x byte order) '
             'read through a simulated stream whose readinto delivery schedule is seeded; every object, property, '
             'length, dtype and value is compared bit-exactly with an independent reference model. Exploration is '
             'the right level: the property is universal over inputs and the only nondeterminism on the read path is '
             'how the stream delivers bytes, which the simulator owns.'),
    'C04': dict(
        level='exploration', ref='DESIGN.md §4 C04',
        technique='deterministic simulation (fault-free + truncated-final-chunk variant): seeded worlds, explicit '
                  'window/slice/index request lists on a lazy and an eager handle, numpy indexing on the model array',
        text='Per seeded world an explicit list of read_data windows (all windows of channels <=24 values in the '
             'thorough tier), slices and integer indices is executed on a lazily opened and an eagerly read handle '
             'and compared with numpy indexing on the full array from the reference model (or, for a file cut inside '
             'its last segment, on what [:] returns). Per-world window enumeration is exhaustive for small channels; '
             'worlds are sampled.'),
}

NOT_APPLICABLE = [
    {"property_id": "C12", "reason": "pure integer/float arithmetic on single timestamp values and a pure function of three properties (time_track); no I/O, state, schedule or fault for a simulator to decide; settled by exhaustive enumeration, which is not this technique"},
    {"property_id": "C16", "reason": "pure string codec (ObjectPath <-> path string); decided by exhaustive enumeration over a tiny alphabet, not by simulation; nothing to schedule or fault"},
    {"property_id": "C17", "reason": "pure numeric functions of (parameters, array) in scaling.py; no I/O, state, schedule or fault"},
    {"property_id": "C18", "reason": "pure numeric functions on a dense grid (thermocouples.py); no I/O, state, schedule or fault"},
]

NOT_YET = {
}


def main():
    checks = []
    for pid in sorted(CHECKS):
        c = CHECKS[pid]
        checks.append({
            'property_id': pid,
            'quick_cmd': './check %s --tier quick' % pid,
            'thorough_cmd': './check %s --tier thorough' % pid,
            'evidence_file': '/verif/evidence/%s.json' % pid,
            'replay_cmd_template': './check %s --replay {path}' % pid,
            'engine': 'tdmssim',
            'level_claimed': {'category': c['level'], 'text': c['text'], 'design_ref': c['ref']},
            'level_note': c.get('note', TRUSTED),
            'technique': c['technique'],
        })
    na = list(NOT_APPLICABLE)
    allp = [json.loads(l)['id'] for l in open(os.path.join(HERE, 'properties.jsonl'))]
    for pid in allp:
        if pid not in CHECKS and pid not in [x['property_id'] for x in na]:
            na.append({'property_id': pid, 'reason': NOT_YET.get(
                pid, 'not claimed yet: the check for this property is still being built (see DESIGN.md §4); '
                     'it is applicable and will be registered when its profile exists')})
    m = {
        'version': 1,
        'setup_cmd': './check selftest setup',
        'hooks': {
            'guard': 'NPTDMS_VERIF',
            'enable': 'no hooks exist in /repo: every seam (stream arguments, module-global open/os of nptdms.reader '
                      'and nptdms.writer, function defaults, generators) is reached from outside; the checks import '
                      'nptdms from the working tree of VERIF_REPO (default /repo), pure Python, nothing to build',
            'baseline_off_cmd': 'cd /repo && /venv/bin/python -m pytest -ra -q -p no:cacheprovider --timeout=900 '
                                '--continue-on-collection-errors',
            'source_commits': [],
            'add_only': True,
        },
        'engines': [{
            'name': 'tdmssim', 'path': '/verif/tdmssim',
            'serves_properties': sorted(CHECKS),
            'kind_free_text': 'deterministic simulator for a single-threaded file library: simulated disk (SimFS) with '
                              'event log, descriptor table, short-delivery / EIO / crash / corruption injection; '
                              'independent TDMS encoder + reference model; seeded world generator and scheduler; '
                              'ddmin minimiser; self-contained replay files',
        }],
        'checks': checks,
        'not_applicable': na,
        'notes': 'Deterministic simulation with fault injection; see DESIGN.md. ./check <id> --tier quick|thorough; '
                 'VERIF_SEED, VERIF_BUDGET_S, VERIF_WORKERS, VERIF_REPO are honoured. Exit 0 held / 1 VIOLATION / '
                 '2 HARNESS-ERROR.',
    }
    with open(os.path.join(HERE, 'MANIFEST.json'), 'w') as f:
        json.dump(m, f, indent=1)
    print('wrote MANIFEST.json with %d checks, %d not claimed' % (len(checks), len(na)))


if __name__ == '__main__':
    main()
