#!/venv/bin/python
"""tools/import_seed.py <PROP> <name> [checks...]  - confirm a sub-agent's seeded change and store it under /verif/seeded/<name>/

Confirms in a scratch copy of /repo (outside /repo and /verif): the patch applies; the pinned suite passes with
it; the demo exits 1 with it and 0 on the unmodified tree.  Then copies patch.diff, demo.py, notes.md and writes meta.json."""
import json
import os
import shutil
import subprocess
import sys
import tempfile

prop, name = sys.argv[1], sys.argv[2]
checks = sys.argv[3:] or [prop]
src = '/tmp/seed-%s/OUT' % prop
if len(name.split('@')) == 2:
    name, src = name.split('@')
dst = '/verif/seeded/%s' % name
d = tempfile.mkdtemp(prefix='nptdms-seedconfirm-')
try:
    subprocess.check_call('git -C /repo ls-files -z | (cd /repo && xargs -0 cp --parents -t %s)' % d, shell=True)
    clean_demo = subprocess.run(['/venv/bin/python', os.path.join(src, 'demo.py'), d], capture_output=True, text=True)
    r = subprocess.run(['git', 'apply', '--unsafe-paths', '--directory=' + d, os.path.join(src, 'patch.diff')], cwd='/',
                       capture_output=True, text=True)
    if r.returncode != 0:
        print('patch does not apply:', r.stderr)
        sys.exit(1)
    suite = subprocess.run(['/venv/bin/python', '-m', 'pytest', '-q', '-x', '-p', 'no:cacheprovider', '-n', '8'], cwd=d,
                           capture_output=True, text=True, env=dict(os.environ, PYTHONDONTWRITEBYTECODE='1'))
    tail = suite.stdout.strip().splitlines()[-1] if suite.stdout.strip() else ''
    bug_demo = subprocess.run(['/venv/bin/python', os.path.join(src, 'demo.py'), d], capture_output=True, text=True)
    print('clean demo exit %d | suite with change: %s (exit %d) | demo with change exit %d' % (
        clean_demo.returncode, tail, suite.returncode, bug_demo.returncode))
    ok = clean_demo.returncode == 0 and suite.returncode == 0 and bug_demo.returncode == 1
    if not ok:
        print('NOT CONFIRMED')
        print(clean_demo.stdout[-500:], clean_demo.stderr[-500:], bug_demo.stdout[-500:], bug_demo.stderr[-500:])
        sys.exit(1)
    os.makedirs(dst, exist_ok=True)
    for f in ('patch.diff', 'demo.py', 'notes.md'):
        shutil.copy(os.path.join(src, f), os.path.join(dst, f))
    notes = open(os.path.join(src, 'notes.md')).read()
    meta = {'property': prop, 'checks': checks, 'origin': 'independent sub-agent given only the property text and a scratch worktree',
            'needs_to_manifest': 'see notes.md', 'confirmed': {
                'suite_with_change': tail, 'demo_on_unmodified_tree_exit': clean_demo.returncode,
                'demo_with_change_exit': bug_demo.returncode,
                'how': 'tools/import_seed.py: scratch copy of /repo, git apply, pytest -n 8, demo.py <scratch>'}}
    json.dump(meta, open(os.path.join(dst, 'meta.json'), 'w'), indent=1)
    print('stored', dst)
finally:
    shutil.rmtree(d, ignore_errors=True)
