"""./check selftest setup | schema | determinism [props...] | sensitivity [mutant...] | noalarm [variant...]"""
import json
import os
import subprocess
import sys

HERE = os.path.dirname(os.path.dirname(os.path.abspath(__file__)))


def setup():
    sys.path.insert(0, HERE)
    from tdmssim import lib, world, gen  # noqa
    import numpy
    import random
    spec, w, _ = gen.gen_world(random.Random(1), gen.Opts())
    tf = lib.TdmsFile.read(__import__('io').BytesIO(w.data))
    print('setup ok: nptdms from %s, numpy %s, stub world of %d bytes read back with %d groups' % (
        lib.nptdms.__file__, numpy.__version__, len(w.data), len(tf.groups())))
    return 0


def schema():
    code = r'''
import json, sys, glob, jsonschema
ok = True
m = json.load(open("%(h)s/MANIFEST.json"))
jsonschema.validate(m, json.load(open("/root/.vp/MANIFEST.schema.json")))
es = json.load(open("/root/.vp/EVIDENCE.schema.json"))
for c in m["checks"]:
    p = c["evidence_file"]
    try:
        e = json.load(open(p))
        jsonschema.validate(e, es)
        assert e["property_id"] == c["property_id"], "property id"
        assert e["level"] == c["level_claimed"]["category"], "level"
        print("valid", p, e["tier"], e["coverage"]["evaluations"], e["coverage"]["distinct_nontrivial"])
    except Exception as exc:
        ok = False
        print("INVALID", p, repr(exc)[:300])
props = [json.loads(l)["id"] for l in open("%(h)s/properties.jsonl")]
claimed = [c["property_id"] for c in m["checks"]]
na = [x["property_id"] for x in m.get("not_applicable", [])]
for p in props:
    if (p in claimed) == (p in na):
        ok = False
        print("property", p, "must be either claimed or listed not_applicable")
sys.exit(0 if ok else 1)
''' % {'h': HERE}
    return subprocess.call(['python3-vt', '-c', code])


def main(argv):
    if not argv:
        print(__doc__)
        return 2
    if argv[0] == 'setup':
        return setup()
    if argv[0] == 'schema':
        return schema()
    if argv[0] == 'determinism':
        from selftest.determinism import main as m
        return m(argv[1:])
    if argv[0] == 'sensitivity':
        from selftest.sensitivity import main as m
        return m(argv[1:])
    if argv[0] == 'noalarm':
        from selftest.noalarm import main as m
        return m(argv[1:])
    print(__doc__)
    return 2
