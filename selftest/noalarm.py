"""No-alarm self-test over property-preserving variants of /repo.

./check selftest noalarm [name ...]

Every /verif/variants/<name>.patch changes HOW /repo does something while keeping every listed property.
For each: copy /repo (tracked files of the working tree) to a scratch directory outside /repo and /verif,
apply the patch, run the pinned test-suite (must pass), run the named quick checks with VERIF_REPO=<scratch>
(each must exit 0 and print no VIOLATION line), delete the scratch directory."""
import glob
import os
import re
import shutil
import subprocess
import sys
import tempfile
import time

HERE = os.path.dirname(os.path.dirname(os.path.abspath(__file__)))


def main(argv):
    names = [a for a in argv if not a.startswith('-')]
    budget = os.environ.get('VERIF_NOALARM_BUDGET', '30')
    paths = sorted(glob.glob(os.path.join(HERE, 'variants', '*.patch')))
    if names:
        paths = [p for p in paths if any(n in p for n in names)]
    bad = 0
    for p in paths:
        meta = {}
        for line in open(p):
            if not line.startswith('#'):
                break
            k = re.match(r'#\s*(\w+):\s*(.*)', line)
            if k:
                meta[k.group(1)] = k.group(2).strip()
        d = tempfile.mkdtemp(prefix='nptdms-variant-')
        try:
            subprocess.check_call('git -C /repo ls-files -z | (cd /repo && xargs -0 cp --parents -t %s)' % d, shell=True)
            r = subprocess.run(['git', 'apply', '--unsafe-paths', '--directory=' + d, p], cwd='/', capture_output=True, text=True)
            if r.returncode != 0:
                print('%-44s PATCH DOES NOT APPLY: %s' % (os.path.basename(p), r.stderr[-200:]))
                bad += 1
                continue
            s = subprocess.run(['/venv/bin/python', '-m', 'pytest', '-q', '-x', '-p', 'no:cacheprovider', '-n', '8'],
                               cwd=d, capture_output=True, text=True, env=dict(os.environ, PYTHONDONTWRITEBYTECODE='1'))
            row = ['suite:%s' % ('pass' if s.returncode == 0 else 'FAIL')]
            ok = s.returncode == 0
            for prop in meta.get('checks', '').split():
                t0 = time.time()
                c = subprocess.run([os.path.join(HERE, 'check'), prop, '--tier', 'quick', '--no-evidence', '--budget', budget],
                                   capture_output=True, text=True, env=dict(os.environ, VERIF_REPO=d, VERIF_SHRINK_S='5'))
                quiet = c.returncode == 0 and 'VIOLATION' not in c.stdout
                ok = ok and quiet
                tag = re.search(r'violation: (\S+)', c.stdout)
                row.append('%s:%s' % (prop, 'quiet' if quiet else 'ALARM(%s)' % (tag.group(1) if tag else 'exit %d' % c.returncode)))
            if not ok:
                bad += 1
            print('%-44s %s  %s' % (os.path.basename(p), 'NO ALARM' if ok else 'ALARM', ' '.join(row)), flush=True)
        finally:
            shutil.rmtree(d, ignore_errors=True)
    print('%d variants, %d with an alarm' % (len(paths), bad))
    return 1 if bad else 0


if __name__ == '__main__':
    sys.exit(main(sys.argv[1:]))
