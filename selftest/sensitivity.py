"""Sensitivity self-test over the mutant corpus.

./check selftest sensitivity [--suite] [name ...]

Every /verif/mutants/<name>.patch is a realistic change to /repo that breaks one property.  For each:
copy /repo (tracked files of the working tree) to a scratch directory outside /repo and /verif, apply
the patch, optionally run the pinned test-suite (--suite: it must still pass), run the property's quick
check with VERIF_REPO=<scratch> (it must print VIOLATION and exit 1), then delete the scratch directory.
A patch file starts with comment lines:  # property: C05   # needs: ...   # checks: C05 C03"""
import glob
import os
import re
import shutil
import subprocess
import sys
import tempfile
import time

HERE = os.path.dirname(os.path.dirname(os.path.abspath(__file__)))


def meta(path):
    m = {'checks': [], 'property': None}
    for line in open(path):
        if not line.startswith('#'):
            break
        k = re.match(r'#\s*(\w+):\s*(.*)', line)
        if k:
            m[k.group(1)] = k.group(2).strip()
    m['checks'] = (m['checks'].split() if isinstance(m['checks'], str) else []) or [m['property']]
    return m


def scratch_copy():
    d = tempfile.mkdtemp(prefix='nptdms-mut-')
    subprocess.check_call('git -C /repo ls-files -z | (cd /repo && xargs -0 cp --parents -t %s)' % d, shell=True)
    return d


def main(argv):
    suite = '--suite' in argv
    names = [a for a in argv if not a.startswith('-')]
    budget = os.environ.get('VERIF_SENS_BUDGET', '60')
    paths = sorted(glob.glob(os.path.join(HERE, 'mutants', '*.patch')) +
                   glob.glob(os.path.join(HERE, 'seeded', '*', 'patch.diff')))
    if names:
        paths = [p for p in paths if any(n in p for n in names)]
    missed = 0
    known_missed = []
    rows = []
    for p in paths:
        m = meta(p)
        if os.path.basename(p) == 'patch.diff':
            mj = os.path.join(os.path.dirname(p), 'meta.json')
            if os.path.exists(mj):
                import json
                j = json.load(open(mj))
                m['property'] = j['property']
                m['checks'] = j.get('checks') or [j['property']]
                m['counted'] = j.get('counted', True)
                m['known_miss'] = bool(j.get('known_miss'))
        name = os.path.relpath(p, HERE)
        d = scratch_copy()
        try:
            r = subprocess.run(['git', 'apply', '--unsafe-paths', '--directory=' + d, p], cwd='/', capture_output=True, text=True)
            if r.returncode != 0:
                r = subprocess.run(['patch', '-p1', '-d', d, '-i', p], capture_output=True, text=True)
            if r.returncode != 0:
                if not m.get('counted', True):
                    print('%-46s NOT-COUNTED (no longer applies: the code it changed was replaced by a repair, see meta.json)' % name)
                    continue
                print('%-46s PATCH DOES NOT APPLY: %s' % (name, (r.stderr or r.stdout)[-300:]))
                missed += 1
                continue
            suite_ok = None
            if suite:
                s = subprocess.run(['/venv/bin/python', '-m', 'pytest', '-q', '-x', '-p', 'no:cacheprovider', '-n', '8'],
                                   cwd=d, capture_output=True, text=True, env=dict(os.environ, PYTHONDONTWRITEBYTECODE='1'))
                suite_ok = s.returncode == 0
            caught = []
            for prop in m['checks']:
                t0 = time.time()
                c = subprocess.run([os.path.join(HERE, 'check'), prop, '--tier', 'quick', '--no-evidence', '--budget', budget],
                                   capture_output=True, text=True,
                                   env=dict(os.environ, VERIF_REPO=d, VERIF_SHRINK_S='10'))
                hit = c.returncode == 1 and 'VIOLATION property=%s' % prop in c.stdout
                tag = re.search(r'violation: (\S+)', c.stdout)
                caught.append((prop, hit, tag.group(1) if tag else ('exit %d' % c.returncode), time.time() - t0))
            ok = any(h for _p, h, _t, _s in caught)
            counted = m.get('counted', True)
            if not ok and counted and not m.get('known_miss'):
                missed += 1
            if not ok and m.get('known_miss'):
                known_missed.append(name)
            rows.append((name, ok))
            print('%-46s %s  %s%s' % (name, 'CAUGHT' if ok else (('KNOWN-MISS (a weakness left open, see meta.json and DESIGN 13.6)' if m.get('known_miss') else 'MISSED') if counted else 'NOT-COUNTED (see meta.json)'),
                                      ' '.join('%s:%s(%s,%.0fs)' % (p_, 'y' if h else 'n', t, s) for p_, h, t, s in caught),
                                      '' if suite_ok is None else ('  suite:%s' % ('pass' if suite_ok else 'FAIL'))))
        finally:
            shutil.rmtree(d, ignore_errors=True)
    print('%d mutants, %d missed%s' % (len(paths), missed, (', %d known miss(es) left open: %s' % (
        len(known_missed), ' '.join(known_missed))) if known_missed else ''))
    return 1 if missed else 0
