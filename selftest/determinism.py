"""Determinism self-test: the same seeds must give identical per-world event-log digests
  (a) twice in fresh interpreters, (b) under another PYTHONHASHSEED, (c) with 1 worker vs many."""
import json
import os
import subprocess
import sys
import tempfile

HERE = os.path.dirname(os.path.dirname(os.path.abspath(__file__)))
RUNNER = ("import sys; sys.path.insert(0, %r); from tdmssim.runner import main; sys.exit(main(sys.argv[1:]))" % HERE)


def run(prop, n, workers, hashseed, seed, out):
    env = dict(os.environ, PYTHONHASHSEED=str(hashseed), PYTHONDONTWRITEBYTECODE='1')
    p = subprocess.run([sys.executable, '-c', RUNNER, prop, '--n', str(n), '--workers', str(workers), '--seed',
                        str(seed), '--no-evidence', '--digests', out, '--budget', '600'],
                       cwd=HERE, env=env, capture_output=True, text=True)
    if p.returncode not in (0, 1):
        print(p.stdout[-3000:], p.stderr[-3000:])
        raise SystemExit('determinism: runner failed for %s (exit %d)' % (prop, p.returncode))
    return json.load(open(out))


def main(argv):
    props = [a.upper() for a in argv if not a.startswith('-')]
    if not props:
        m = json.load(open(os.path.join(HERE, 'MANIFEST.json')))
        props = [c['property_id'] for c in m['checks']]
    n = int(os.environ.get('VERIF_DET_N', '200'))
    bad = 0
    with tempfile.TemporaryDirectory() as d:
        for prop in props:
            configs = [(16, 0, 'a'), (16, 0, 'b'), (16, 12345, 'c'), (1, 0, 'd'), (5, 777, 'e')]
            digs = []
            for (workers, hs, tag) in configs:
                digs.append(run(prop, n, workers, hs, 0, os.path.join(d, '%s-%s.json' % (prop, tag))))
            ref = digs[0]
            ok = all(x == ref for x in digs[1:])
            if not ok:
                bad += 1
                for (workers, hs, tag), x in zip(configs[1:], digs[1:]):
                    if x != ref:
                        diff = [(a, b) for a, b in zip(ref, x) if a != b][:3]
                        print('  %s differs with workers=%d PYTHONHASHSEED=%d: first diffs %s' % (prop, workers, hs, diff))
            print('%s determinism %s: %d worlds x %d configurations (2 fresh interpreters, other PYTHONHASHSEEDs, '
                  '1/5/16 workers)' % (prop, 'OK' if ok else 'FAILED', len(ref), len(configs)))
    return 1 if bad else 0
